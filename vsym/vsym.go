// Package vsym is the nondeterminism/assumption/assertion vocabulary of the verification harnesses.
// Under the symbolic engine (gosym) every function here is intercepted: Byte/Bytes/Uint64/... return fresh
// SMT variables, IntRange forks, Assume constrains the path, Assert becomes a solver query.
// Compiled natively, values come from the replay file named by VERIF_REPLAY (absent: zero values / first
// choice), so that the same harness source reproduces a solver counterexample against the real build.
package vsym

import (
	"encoding/hex"
	"encoding/json"
	"fmt"
	"math"
	"os"
	"path/filepath"
	"runtime"
	"strings"
	"sync"
	"time"
)

type replayFile struct {
	Harness   string            `json:"harness"`
	Vars      map[string]uint64 `json:"vars"`
	Ints      []int             `json:"ints"`
	Thorough  bool              `json:"thorough"`
	Crash     map[string]string `json:"crash"` // post-crash directory image: simfs path -> hex
	Outs      []int64           `json:"outs"`
	CrashKind int               `json:"crash_kind"`
}

var (
	once    sync.Once
	mu      sync.Mutex
	rp      replayFile
	counts  = map[string]int{}
	intIdx  int
	Failed  []string
	Skipped bool
	tmpDir  string
)

func load() {
	once.Do(func() {
		rp.Vars = map[string]uint64{}
		if p := os.Getenv("VERIF_REPLAY"); p != "" {
			b, err := os.ReadFile(p)
			if err != nil {
				panic(err)
			}
			if err := json.Unmarshal(b, &rp); err != nil {
				panic(err)
			}
			if rp.Vars == nil {
				rp.Vars = map[string]uint64{}
			}
		}
	})
}

func vname(base string) string {
	mu.Lock()
	defer mu.Unlock()
	n := counts[base]
	counts[base] = n + 1
	return fmt.Sprintf("%s__%d", base, n)
}

func Byte(name string) byte       { load(); return byte(rp.Vars[vname(name)]) }
func Uint64(name string) uint64   { load(); return rp.Vars[vname(name)] }
func Float64(name string) float64 { load(); return math.Float64frombits(rp.Vars[vname(name)]) }
func Bool(name string) bool       { load(); return rp.Vars[vname(name)] != 0 }

// Thorough reports whether the check runs at its thorough bounds.
func Thorough() bool { load(); return rp.Thorough }

// Symbolic reports whether the harness runs under the symbolic engine.
func Symbolic() bool { return false }

// IntRange returns a value in [lo,hi]; symbolically every value is explored (forked).
func IntRange(name string, lo, hi int) int {
	load()
	mu.Lock()
	v := lo
	if intIdx < len(rp.Ints) {
		v = rp.Ints[intIdx]
	}
	intIdx++
	mu.Unlock()
	if v < lo || v > hi {
		panic(fmt.Sprintf("vsym: replay value %d for %s outside [%d,%d]", v, name, lo, hi))
	}
	return v
}

// Bytes returns n fresh symbolic bytes.
func Bytes(name string, n int) []byte {
	load()
	b := make([]byte, n)
	for i := range b {
		b[i] = byte(rp.Vars[vname(fmt.Sprintf("%s_%d", name, i))])
	}
	return b
}

type skip struct{}
type failure struct{ msg string }

func Assume(c bool) {
	if !c {
		Skipped = true
		panic(skip{})
	}
}

func Assert(c bool, msg string) {
	if !c {
		mu.Lock()
		Failed = append(Failed, msg)
		mu.Unlock()
		fmt.Printf("VERIF-ASSERT-FAILED: %s\n", msg)
		panic(failure{msg})
	}
}

// Region names a part of the harness' input space (a recorded known finding). Symbolically, a violation is
// reported separately for counterexamples inside and outside every named region; natively it is a no-op.
func Region(name string, cond bool) {}

func EqBytes(a, b []byte) bool   { return string(a) == string(b) }
func LessBytes(a, b []byte) bool { return string(a) < string(b) }

// Ite is a non-forking conditional on integers.
func Ite(c bool, a, b int) int {
	if c {
		return a
	}
	return b
}
func And(a, b bool) bool     { return a && b }
func Or(a, b bool) bool      { return a || b }
func Not(a bool) bool        { return !a }
func Implies(a, b bool) bool { return !a || b }
func Reach(label string)     {}

// Observe records an output of the code under test. The engine evaluates the same expression under the
// solver's model; the two renderings must agree (differential validation of the translator).
func Observe(label string, v interface{}) {
	var s string
	switch x := v.(type) {
	case nil:
		s = "nil"
	case error:
		if x == nil {
			s = "nil"
		} else {
			s = "err"
		}
	case bool:
		s = fmt.Sprint(x)
	case int, int8, int16, int32, int64, uint, uint8, uint16, uint32, uint64:
		s = fmt.Sprint(x)
	case string:
		s = fmt.Sprintf("%q", x)
	case []byte:
		if x == nil {
			s = "nil"
		} else {
			s = "[" + hex.EncodeToString(x) + "]"
		}
	default:
		s = "?"
	}
	fmt.Printf("VERIF-OBSERVE %s=%s\n", label, s)
}

// Dir is the database directory: "/db" under the engine's file-system model, a fresh temp dir natively.
func Dir() string {
	mu.Lock()
	defer mu.Unlock()
	if tmpDir == "" {
		d, err := os.MkdirTemp("", "verifdb")
		if err != nil {
			panic(err)
		}
		tmpDir = d
	}
	return tmpDir
}

// Held reports the state of a mutex: 0 free, 1 read-held, 2 write-held.
func Held(m interface{}) int {
	switch m := m.(type) {
	case *sync.RWMutex:
		if m.TryLock() {
			m.Unlock()
			return 0
		}
		if m.TryRLock() {
			m.RUnlock()
			return 1
		}
		return 2
	case *sync.Mutex:
		if m.TryLock() {
			m.Unlock()
			return 0
		}
		return 2
	}
	panic("vsym.Held: not a mutex")
}

// BlockForever models an external call that never returns (a stalled peer).
func BlockForever() { select {} }

// Quiesce lets all other goroutines run until they finish or block.
func Quiesce() { time.Sleep(300 * time.Millisecond) }

// CrashRegion runs f; symbolically the process may die at any file-system step inside it (returns true
// then), leaving on disk what the crash model (1 = process death, 2 = power loss) allows. outs are the
// harness' bookkeeping variables assigned inside f. Natively, when the replay file carries a post-crash
// directory image, f is not run: the image is materialised under Dir() and outs are restored, so that the
// native recovery code runs on exactly the bytes the counterexample describes.
func CrashRegion(mode int, f func(), outs ...*int) bool {
	load()
	if rp.Crash == nil {
		f()
		return false
	}
	root := Dir()
	// the image replaces whatever the native run has put into the directory so far, except files whose image
	// content is a token of the engine's encoding/json stub (the manifest): those keep their native content
	keep := map[string]bool{}
	for p, hx := range rp.Crash {
		b, _ := hex.DecodeString(hx)
		if rel, err := filepath.Rel("/db", p); err == nil && strings.HasPrefix(string(b), `{"verif_json_blob":`) {
			keep[filepath.Join(root, rel)] = true
		}
	}
	filepath.Walk(root, func(p string, info os.FileInfo, err error) error {
		if err == nil && !info.IsDir() && !keep[p] {
			os.Remove(p)
		}
		return nil
	})
	for p, hx := range rp.Crash {
		b, err := hex.DecodeString(hx)
		if err != nil {
			panic(err)
		}
		rel, err := filepath.Rel("/db", p)
		if err != nil || len(rel) >= 2 && rel[:2] == ".." {
			continue // files outside the database directory (temp files) are not part of the image
		}
		dst := filepath.Join(root, rel)
		if keep[dst] {
			continue
		}
		if err := os.MkdirAll(filepath.Dir(dst), 0755); err != nil {
			panic(err)
		}
		if err := os.WriteFile(dst, b, 0644); err != nil {
			panic(err)
		}
	}
	for i, o := range outs {
		if i < len(rp.Outs) {
			*o = int(rp.Outs[i])
		}
	}
	return true
}

// Durable states that everything written so far has reached stable storage (the setup phase of a harness
// lies far enough in the past). Symbolically it moves every file's durable watermark to its end.
func Durable() {}

// CrashKind tells how the process died in the last CrashRegion: 0 it did not, 1 at an operation boundary,
// 2 an in-flight write was torn, 3 unsynced data was trimmed (power loss).
func CrashKind() int { load(); return rp.CrashKind }

// Run executes a harness natively and reports the outcome; used by generated replay tests.
func Run(h func()) (failed []string, skipped bool, panicked interface{}) {
	done := make(chan struct{})
	go func() {
		defer close(done)
		defer func() {
			if x := recover(); x != nil {
				switch x.(type) {
				case skip, failure:
				default:
					buf := make([]byte, 1<<14)
					n := runtime.Stack(buf, false)
					fmt.Printf("VERIF-PANIC: %v\n%s\n", x, buf[:n])
					panicked = x
				}
			}
		}()
		h()
	}()
	<-done
	if tmpDir != "" {
		os.RemoveAll(tmpDir)
	}
	return Failed, Skipped, panicked
}
