package main

import (
	"fmt"
	"go/constant"
	"go/token"
	"go/types"
	"math"
	"runtime/debug"
	"strings"
	"sync"
	"time"

	"golang.org/x/tools/go/ssa"
)

// Run is one path execution.
type Run struct {
	M                   *Machine
	S                   *Solver
	TT                  *TermTable
	Prefix              []int // decisions to replay
	Trace               []int // decisions taken
	Alts                [][]int
	PC                  []*Term
	Globals             map[*ssa.Global]*Value
	Steps               int
	NVars               int
	Inputs              []*Term
	Violated            []string
	Reached             map[string]bool
	vsymN               map[string]int
	Choices             []string
	Ints                []int
	Viol                []Violation
	Inited              map[*ssa.Package]bool
	InInit              int
	FnCount             map[string]int
	GoCount             int
	MapOrderForks       int
	Sch                 *Sched
	SpawnOK             bool
	Leaked              int
	curWhere            string
	curFn               string
	crcApps             map[int][]*Term
	xxhApps             map[int][]*Term
	hashRecs            map[string][]hashRec
	Axioms              int
	Bloom               map[string][][]Value
	BloomN              int
	SymLoads, SymStores int
	SkippedInit         []string
	FS                  *SimFS
	Clock               int64
	Locks               map[*Value]int
	Asserts             int
	MaxZeros            int
	randZeros           int
	randCalls           int
	Opts                *Opts
	Regions             map[string]*Term
	RegionOrder         []string
	StepCap             int
	Observed            []obs
	StubCount           map[string]int
	CrashImage          map[string][]Value
	RegionOuts          []Value
	curInstr            ssa.Instruction
	hang                *Violation
	Blobs               []jsonBlob
	Pools               map[*Value][]Value // sync.Pool model: objects put back, per pool
	Deadline            time.Time
	Pin                 map[string]uint64
	PinAll              bool
}

type Machine struct {
	Prog        *ssa.Program
	Intr        map[string]func(r *Run, fr *Frame, args []Value) Value
	FnCount     map[string]int
	SkippedInit map[string]bool
	hostTypes   map[string]*types.Named
	mu          sync.Mutex
}

type Frame struct {
	r         *Run
	fn        *ssa.Function
	env       map[ssa.Value]Value
	locals    []Value
	block     *ssa.BasicBlock
	prev      *ssa.BasicBlock
	defers    []func()
	result    Value
	caller    *Frame
	panicking bool
	panicVal  Value
}

type pathAbort struct{ why string }
type enginePanic struct {
	x     interface{}
	stack string
	fn    string
}
type targetPanic struct{ v Value }

func (r *Run) abort(why string) { panic(pathAbort{why}) }

// decide picks among n alternatives; feas(i) returns the constraint term for alt i (nil = unconditional).
func (r *Run) decide(n int, cons func(i int) *Term) int {
	idx := len(r.Trace)
	if idx < len(r.Prefix) {
		c := r.Prefix[idx]
		r.Trace = append(r.Trace, c)
		if t := cons(c); t != nil {
			r.assume(t)
		}
		return c
	}
	var feas []int
	for i := 0; i < n; i++ {
		t := cons(i)
		if t == nil || t.op == "true" {
			feas = append(feas, i)
			continue
		}
		if t.op == "false" {
			continue
		}
		switch r.S.CheckAssuming(t) {
		case "sat":
			feas = append(feas, i)
		case "unsat":
		default:
			r.abort("solver unknown at decision")
		}
	}
	if len(feas) == 0 {
		r.abort("infeasible")
	}
	for _, alt := range feas[1:] {
		p := append(append([]int{}, r.Trace...), alt)
		r.Alts = append(r.Alts, p)
	}
	c := feas[0]
	r.Trace = append(r.Trace, c)
	if t := cons(c); t != nil {
		r.assume(t)
	}
	return c
}

func (r *Run) assume(t *Term) {
	if t.op == "true" {
		return
	}
	r.PC = append(r.PC, t)
	r.S.Assert(t)
}

func (r *Run) branch(b Bool) bool {
	if b.T == nil {
		return b.C
	}
	c := r.decide(2, func(i int) *Term {
		if i == 0 {
			return b.T
		}
		return r.TT.Not(b.T)
	})
	return c == 0
}

func (r *Run) numTerm(n Num) *Term {
	if n.T != nil {
		return n.T
	}
	return r.TT.BV(n.W, n.C)
}
func (r *Run) boolTerm(b Bool) *Term {
	if b.T != nil {
		return b.T
	}
	return r.TT.BoolC(b.C)
}

func (r *Run) fresh(name string, w int, signed bool) Num {
	r.NVars++
	t := r.TT.Var(fmt.Sprintf("%s", name), w)
	r.Inputs = append(r.Inputs, t)
	if r.Pin != nil {
		if v, ok := r.Pin[name]; ok || r.PinAll {
			r.assume(r.TT.Eq(t, r.TT.BV(w, v)))
		}
	}
	return Num{W: w, Signed: signed, T: t}
}

// concretize forces a Num to a concrete uint64 by forking over feasible values in [lo,hi].
const concretizeCap = 300

// concretize forces a symbolic number to a concrete value by forking over ALL its feasible values
// (enumerated with the solver); more than concretizeCap values is an exceeded bound, not a silent cut.
func (r *Run) concretize(n Num, lo, hi uint64) uint64 {
	if n.T == nil {
		return n.C
	}
	idx := len(r.Trace)
	if idx < len(r.Prefix) {
		v := uint64(r.Prefix[idx])
		r.Trace = append(r.Trace, int(v))
		r.assume(r.TT.Eq(n.T, r.TT.BV(n.W, v)))
		return v
	}
	var vals []uint64
	excl := r.TT.True()
	for {
		if !r.Deadline.IsZero() && time.Now().After(r.Deadline) {
			r.abort("budget: exploration deadline reached while enumerating the values of a symbolic length/index")
		}
		v, ok := r.S.TermValue(excl, n.T)
		if !ok {
			break
		}
		vals = append(vals, v)
		if len(vals) > concretizeCap {
			r.abort("concretization cap exceeded in " + r.curFn + " choices=" + fmt.Sprint(r.Choices))
		}
		excl = r.TT.And(excl, r.TT.Not(r.TT.Eq(n.T, r.TT.BV(n.W, v))))
	}
	if len(vals) == 0 {
		r.abort("infeasible")
	}
	for _, v := range vals[1:] {
		r.Alts = append(r.Alts, append(append([]int{}, r.Trace...), int(v)))
	}
	r.Trace = append(r.Trace, int(vals[0]))
	r.assume(r.TT.Eq(n.T, r.TT.BV(n.W, vals[0])))
	return vals[0]
}

func (r *Run) concCap() int {
	if r.Opts != nil && r.Opts.ConcCap > 0 {
		return r.Opts.ConcCap
	}
	return concretizeCap
}

func (fr *Frame) get(v ssa.Value) Value {
	switch v := v.(type) {
	case *ssa.Const:
		return fr.r.constVal(v)
	case *ssa.Function:
		return &Closure{Fn: v}
	case *ssa.Builtin:
		return v
	case *ssa.Global:
		return fr.r.global(v)
	case nil:
		return nil
	}
	if x, ok := fr.env[v]; ok {
		return x
	}
	panic(fmt.Sprintf("get: no value for %T %s in %s", v, v.Name(), fr.fn))
}

func (r *Run) globalCell(g *ssa.Global) *Value {
	if p, ok := r.Globals[g]; ok {
		return p
	}
	cell := new(Value)
	*cell = zero(g.Type().(*types.Pointer).Elem())
	r.Globals[g] = cell
	return cell
}

func (r *Run) global(g *ssa.Global) Value {
	if g.Pkg != nil && !r.Inited[g.Pkg] {
		r.Inited[g.Pkg] = true
		if r.M.initAllowed(g.Pkg.Pkg.Path()) {
			if f := g.Pkg.Func("init"); f != nil {
				r.InInit++
				r.callFn(nil, f, nil, nil)
				r.InInit--
			}
		} else {
			r.SkippedInit = append(r.SkippedInit, g.Pkg.Pkg.Path())
		}
	}
	return Ptr(r.globalCell(g))
}

func (r *Run) constVal(c *ssa.Const) Value {
	t := c.Type().Underlying()
	if c.Value == nil {
		return zero(c.Type())
	}
	switch t := t.(type) {
	case *types.Basic:
		if w, s, ok := basicInfo(t); ok {
			var u uint64
			if s {
				i, _ := constant.Int64Val(constant.ToInt(c.Value))
				u = uint64(i)
			} else {
				u, _ = constant.Uint64Val(constant.ToInt(c.Value))
			}
			return Num{W: w, Signed: s, C: u & mask(w)}
		}
		switch t.Kind() {
		case types.Bool, types.UntypedBool:
			return Bool{C: constant.BoolVal(c.Value)}
		case types.String, types.UntypedString:
			return Str(constant.StringVal(c.Value))
		case types.Float64, types.UntypedFloat, types.Float32:
			f, _ := constant.Float64Val(c.Value)
			return f
		}
	}
	panic("const: " + c.String())
}

func (r *Run) call(caller *Frame, fnv Value, args []Value, pos token.Pos) Value {
	switch f := fnv.(type) {
	case *Closure:
		if f == nil {
			panic(targetPanic{Str("nil func call")})
		}
		return r.callFn(caller, f.Fn, args, f.Env)
	case *ssa.Builtin:
		return r.builtin(caller, f, args)
	case *HostFunc:
		return f.F(r, args)
	case *HostCall:
		return r.hostCall(f.Obj, f.Method, args)
	}
	panic(fmt.Sprintf("call: %T", fnv))
}

func (r *Run) callFn(caller *Frame, fn *ssa.Function, args []Value, env []Value) Value {
	name := fn.String()
	r.curFn = name
	if fn.Name() == "init" && fn.Pkg != nil && fn.Signature.Recv() == nil && caller != nil {
		// lazy package initialisation: dependencies are initialised on first global access
		return nil
	}
	r.FnCount[name]++
	if in, ok := r.M.Intr[name]; ok {
		return in(r, caller, args)
	}
	if in := r.M.matchIntr(name); in != nil {
		return in(r, caller, args)
	}
	if fn.Blocks == nil {
		panic("no body for " + name)
	}
	fr := &Frame{r: r, fn: fn, env: make(map[ssa.Value]Value, 32), caller: caller}
	for i, p := range fn.Params {
		fr.env[p] = args[i]
	}
	for i, fv := range fn.FreeVars {
		fr.env[fv] = env[i]
	}
	fr.locals = make([]Value, len(fn.Locals))
	for i, l := range fn.Locals {
		fr.locals[i] = zero(l.Type().(*types.Pointer).Elem())
		fr.env[l] = Ptr(&fr.locals[i])
	}
	fr.block = fn.Blocks[0]
	fr.run()
	return fr.result
}

func (fr *Frame) runDefers() {
	for i := len(fr.defers) - 1; i >= 0; i-- {
		d := fr.defers[i]
		fr.defers = fr.defers[:i]
		d()
	}
}

func (fr *Frame) run() {
	tp := fr.runBody()
	if tp == nil {
		return
	}
	// a target panic reached this frame: run its deferred calls; one of them may recover()
	fr.panicking = true
	fr.panicVal = tp.v
	fr.runDefers()
	if fr.panicking {
		panic(*tp)
	}
	// recovered: resume at the Recover block (loads named results) or return zero values
	if fr.fn.Recover != nil {
		fr.prev, fr.block = nil, fr.fn.Recover
		if tp2 := fr.runBody(); tp2 != nil {
			panic(*tp2)
		}
		return
	}
	res := fr.fn.Signature.Results()
	switch res.Len() {
	case 0:
	case 1:
		fr.result = zero(res.At(0).Type())
	default:
		fr.result = zero(res)
	}
}

// runBody interprets until return; a target panic is returned instead of propagated.
func (fr *Frame) runBody() (tp *targetPanic) {
	defer func() {
		if x := recover(); x != nil {
			switch x := x.(type) {
			case targetPanic:
				tp = &x
				return
			case pathAbort, enginePanic, crashSignal:
				panic(x)
			default:
				panic(enginePanic{x, string(debug.Stack()), fr.fn.String()})
			}
		}
	}()
	fr.loop()
	return nil
}

func (fr *Frame) loop() {
	for {
		// phis
		instrs := fr.block.Instrs
		i := 0
		if fr.prev != nil {
			pi := -1
			for k, p := range fr.block.Preds {
				if p == fr.prev {
					pi = k
					break
				}
			}
			var tmp []Value
			for ; i < len(instrs); i++ {
				phi, ok := instrs[i].(*ssa.Phi)
				if !ok {
					break
				}
				tmp = append(tmp, fr.get(phi.Edges[pi]))
			}
			for k := 0; k < i; k++ {
				fr.env[instrs[k].(*ssa.Phi)] = tmp[k]
			}
		}
		for ; i < len(instrs); i++ {
			fr.r.Steps++
			if fr.r.Steps&0x3FFFF == 0 && !fr.r.Deadline.IsZero() && time.Now().After(fr.r.Deadline) {
				fr.r.abort("budget: exploration deadline reached inside a path")
			}
			if fr.r.Steps > fr.r.StepCap {
				fr.r.abort("unwind: step budget exceeded in " + fr.fn.String())
			}
			switch fr.step(instrs[i]) {
			case 1: // jump
				goto next
			case 2: // return
				return
			}
		}
	next:
	}
}

func (fr *Frame) step(instr ssa.Instruction) int {
	r := fr.r
	switch in := instr.(type) {
	case *ssa.DebugRef:
	case *ssa.UnOp:
		r.curWhere = fr.fn.String()
		fr.env[in] = r.unop(in, fr.get(in.X))
	case *ssa.BinOp:
		fr.env[in] = r.binop(in.Op, in.X.Type(), fr.get(in.X), fr.get(in.Y))
	case *ssa.Call:
		fnv, args := fr.prepareCall(&in.Call)
		fr.env[in] = r.call(fr, fnv, args, in.Pos())
	case *ssa.ChangeType:
		fr.env[in] = fr.get(in.X)
	case *ssa.ChangeInterface:
		fr.env[in] = fr.get(in.X)
	case *ssa.Convert:
		fr.env[in] = r.conv(in.Type(), in.X.Type(), fr.get(in.X))
	case *ssa.MakeInterface:
		fr.env[in] = Iface{T: in.X.Type(), V: fr.get(in.X)}
	case *ssa.Extract:
		fr.env[in] = fr.get(in.Tuple).(Tuple)[in.Index]
	case *ssa.Slice:
		fr.env[in] = r.slice(in, fr.get(in.X), fr.get(in.Low), fr.get(in.High), fr.get(in.Max))
	case *ssa.Return:
		switch len(in.Results) {
		case 0:
		case 1:
			fr.result = fr.get(in.Results[0])
		default:
			t := make(Tuple, len(in.Results))
			for i, x := range in.Results {
				t[i] = fr.get(x)
			}
			fr.result = t
		}
		return 2
	case *ssa.RunDefers:
		fr.runDefers()
	case *ssa.Panic:
		panic(targetPanic{fr.get(in.X)})
	case *ssa.Store:
		if sp, ok := fr.get(in.Addr).(*SymPtr); ok {
			r.symStore(sp, fr.get(in.Val).(Num))
			break
		}
		p := fr.get(in.Addr).(Ptr)
		if p == nil {
			panic(targetPanic{Str("nil pointer store")})
		}
		if r.Sch != nil && r.Sch.active {
			r.access(p, true, false, fr.fn.String())
		}
		*p = copyVal(fr.get(in.Val))
	case *ssa.If:
		c := fr.get(in.Cond).(Bool)
		succ := 1
		if r.branch(c) {
			succ = 0
		}
		fr.prev, fr.block = fr.block, fr.block.Succs[succ]
		return 1
	case *ssa.Jump:
		fr.prev, fr.block = fr.block, fr.block.Succs[0]
		return 1
	case *ssa.Defer:
		fnv, args := fr.prepareCall(&in.Call)
		fr.defers = append(fr.defers, func() { r.call(fr, fnv, args, in.Pos()) })
	case *ssa.Alloc:
		cell := new(Value)
		*cell = zero(in.Type().(*types.Pointer).Elem())
		if in.Heap {
			fr.env[in] = Ptr(cell)
		} else {
			// re-zero local
			p := fr.env[in].(Ptr)
			*p = *cell
		}
	case *ssa.MakeSlice:
		n := fr.get(in.Len).(Num)
		ln := r.allocLen(r.concretize(n, 0, 64), n)
		cp := ln
		if in.Cap != nil {
			cn := fr.get(in.Cap).(Num)
			cp = r.allocLen(r.concretize(cn, 0, 1<<20), cn)
			if cp < ln {
				panic(targetPanic{Str("makeslice: cap out of range")})
			}
		}
		s := make([]Value, ln, cp)
		et := in.Type().Underlying().(*types.Slice).Elem()
		if _, ok := et.Underlying().(*types.Basic); ok && ln > 0 {
			z := zero(et)
			for i := range s {
				s[i] = z
			}
		} else {
			for i := range s {
				s[i] = zero(et)
			}
		}
		fr.env[in] = Slice{S: s}
	case *ssa.FieldAddr:
		p := fr.get(in.X).(Ptr)
		if p == nil {
			panic(targetPanic{Str("nil pointer dereference (FieldAddr " + in.String() + ")")})
		}
		fr.env[in] = Ptr(&(*p).(Struct)[in.Field])
	case *ssa.Field:
		fr.env[in] = fr.get(in.X).(Struct)[in.Field]
	case *ssa.IndexAddr:
		x := fr.get(in.X)
		idx := fr.get(in.Index).(Num)
		var elems []Value
		switch x := x.(type) {
		case Slice:
			elems = x.S
		case Ptr:
			if x == nil {
				panic(targetPanic{Str("nil array pointer")})
			}
			elems = (*x).(Array)
		default:
			panic(fmt.Sprintf("IndexAddr on %T", x))
		}
		if idx.T != nil && len(elems) > symIndexThreshold && len(elems) <= 512 {
			// large byte array with a symbolic index (bloom filter bits): no concretisation, ite expansion on access
			if _, ok := elems[0].(Num); ok {
				oob := r.TT.Bin("bvuge", idx.T, r.TT.BV(idx.W, uint64(len(elems))))
				if r.branch(Bool{T: oob}) {
					panic(targetPanic{Str(fmt.Sprintf("index out of range (symbolic index, length %d)", len(elems)))})
				}
				fr.env[in] = &SymPtr{Elems: elems, Idx: idx}
				break
			}
		}
		i := r.index(idx, len(elems))
		fr.env[in] = Ptr(&elems[i])
	case *ssa.Index:
		x := fr.get(in.X)
		idx := fr.get(in.Index).(Num)
		switch x := x.(type) {
		case Array:
			fr.env[in] = x[r.index(idx, len(x))]
		case Str:
			fr.env[in] = Num{W: 8, C: uint64(x[r.index(idx, len(x))])}
		default:
			panic(fmt.Sprintf("Index on %T", x))
		}
	case *ssa.MakeClosure:
		env := make([]Value, len(in.Bindings))
		for i, b := range in.Bindings {
			env[i] = fr.get(b)
		}
		fr.env[in] = &Closure{Fn: in.Fn.(*ssa.Function), Env: env}
	case *ssa.TypeAssert:
		fr.env[in] = r.typeAssert(in, fr.get(in.X).(Iface))
	case *ssa.Lookup:
		if m, ok := fr.get(in.X).(*Map); ok && m != nil && r.Sch != nil && r.Sch.active {
			r.access(&m.id, false, false, fr.fn.String()+" (map read)")
		}
		fr.env[in] = r.mapLookup(in, fr.get(in.X), fr.get(in.Index))
	case *ssa.MapUpdate:
		m, _ := fr.get(in.Map).(*Map)
		if r.Sch != nil && r.Sch.active && m != nil {
			r.access(&m.id, true, false, fr.fn.String()+" (map write)")
		}
		r.mapUpdate(m, fr.get(in.Key), fr.get(in.Value))
	case *ssa.MakeMap:
		fr.env[in] = &Map{}
	case *ssa.Range:
		switch x := fr.get(in.X).(type) {
		case *Map:
			it := &MapIter{}
			if x != nil {
				it.keys = append(it.keys, x.Keys...)
				it.vals = append(it.vals, x.Vals...)
			}
			r.mapOrder(fr, it)
			fr.env[in] = it
		case Str:
			fr.env[in] = &StrIter{s: string(x)}
		default:
			panic(fmt.Sprintf("range over %T", x))
		}
	case *ssa.Next:
		switch it := fr.get(in.Iter).(type) {
		case *MapIter:
			if it.i < len(it.keys) {
				fr.env[in] = Tuple{Bool{C: true}, it.keys[it.i], it.vals[it.i]}
				it.i++
			} else {
				fr.env[in] = Tuple{Bool{C: false}, nil, nil}
			}
		case *StrIter:
			if it.i < len(it.s) {
				rn := []rune(it.s[it.i:])[0]
				fr.env[in] = Tuple{Bool{C: true}, Num{W: 64, Signed: true, C: uint64(it.i)}, Num{W: 32, Signed: true, C: uint64(rn)}}
				it.i += len(string(rn))
			} else {
				fr.env[in] = Tuple{Bool{C: false}, Num{W: 64, Signed: true}, Num{W: 32, Signed: true}}
			}
		}
	case *ssa.Select:
		fr.env[in] = r.doSelect(fr, in)
	case *ssa.MakeChan:
		fr.env[in] = &Chan{cap: int(fr.get(in.Size).(Num).C), zero: zero(in.Type().Underlying().(*types.Chan).Elem())}
	case *ssa.Send:
		ch, _ := fr.get(in.Chan).(*Chan)
		r.chanSend(ch, fr.get(in.X))
	case *ssa.Go:
		r.GoCount++
		if c := in.Call.StaticCallee(); c != nil && noSpawn[c.Name()] && !(r.Opts != nil && r.Opts.Background[c.Name()]) {
			break
		}
		if r.Sch != nil && r.Sch.bound >= 0 && r.InInit == 0 && r.SpawnOK {
			fnv, args := fr.prepareCall(&in.Call)
			r.spawn(fnv, args)
		}
	case *ssa.Phi:
		panic("phi in body")
	default:
		panic(fmt.Sprintf("unsupported instr %T: %s in %s", instr, instr, fr.fn))
	}
	return 0
}

// allocLen guards host allocations: a length Go itself would refuse is a target panic, one that is merely
// beyond what the interpreter's cell-vector representation can hold ends the path as inconclusive.
func (r *Run) allocLen(v uint64, n Num) int {
	sv := int64(signExtend(v, n.W))
	if n.Signed && sv < 0 || v > 1<<46 {
		panic(targetPanic{Str("makeslice: len out of range")})
	}
	if v > 1<<24 {
		r.abort("unwind: allocation of more than 16M cells is beyond the engine's bound")
	}
	return int(v)
}

func (r *Run) index(idx Num, n int) int {
	if idx.T == nil {
		i := int64(idx.C)
		if idx.W < 64 {
			if idx.Signed {
				i = int64(signExtend(idx.C, idx.W))
			}
		}
		if i < 0 || i >= int64(n) {
			panic(targetPanic{Str(fmt.Sprintf("index out of range [%d] with length %d", i, n))})
		}
		return int(i)
	}
	// symbolic index: in range (then concretised) or out of range
	oob := r.TT.Bin("bvuge", idx.T, r.TT.BV(idx.W, uint64(n)))
	if r.branch(Bool{T: oob}) {
		panic(targetPanic{Str(fmt.Sprintf("index out of range (symbolic index, length %d)", n))})
	}
	return int(r.concretize(idx, 0, uint64(n)))
}

func signExtend(c uint64, w int) uint64 {
	if w >= 64 {
		return c
	}
	if c&(1<<uint(w-1)) != 0 {
		return c | ^mask(w)
	}
	return c
}

func (fr *Frame) prepareCall(cc *ssa.CallCommon) (Value, []Value) {
	var fnv Value
	var args []Value
	if cc.IsInvoke() {
		recv := fr.get(cc.Value).(Iface)
		if recv.T == nil {
			panic(targetPanic{Str("nil interface method call: " + cc.Method.Name())})
		}
		if h, ok := recv.V.(*HostObj); ok {
			name := cc.Method.Name()
			for _, a := range cc.Args {
				args = append(args, fr.get(a))
			}
			return &HostCall{Obj: h, Method: name}, args
		}
		ms := fr.r.M.Prog.MethodSets.MethodSet(recv.T)
		sel := ms.Lookup(cc.Method.Pkg(), cc.Method.Name())
		if sel == nil {
			panic("no method " + cc.Method.Name() + " on " + recv.T.String())
		}
		fnv = &Closure{Fn: fr.r.M.Prog.MethodValue(sel)}
		args = append(args, recv.V)
	} else {
		fnv = fr.get(cc.Value)
	}
	for _, a := range cc.Args {
		args = append(args, fr.get(a))
	}
	return fnv, args
}

func (r *Run) typeAssert(in *ssa.TypeAssert, x Iface) Value {
	ok := false
	if x.T != nil {
		if _, isI := in.AssertedType.Underlying().(*types.Interface); isI {
			ok = types.Implements(x.T, in.AssertedType.Underlying().(*types.Interface))
		} else {
			ok = types.Identical(x.T, in.AssertedType)
		}
	}
	var v Value
	if ok {
		if _, isI := in.AssertedType.Underlying().(*types.Interface); isI {
			v = x
		} else {
			v = x.V
		}
	} else {
		v = zero(in.AssertedType)
	}
	if in.CommaOk {
		return Tuple{v, Bool{C: ok}}
	}
	if !ok {
		panic(targetPanic{Str("type assertion failed")})
	}
	return v
}

func (r *Run) unop(in *ssa.UnOp, x Value) Value {
	switch in.Op {
	case token.MUL: // load
		if sp, ok := x.(*SymPtr); ok {
			return r.symLoad(sp)
		}
		p := x.(Ptr)
		if p == nil {
			panic(targetPanic{Str("nil pointer dereference")})
		}
		if r.Sch != nil && r.Sch.active {
			r.access(p, false, false, r.curWhere)
		}
		return copyVal(*p)
	case token.ARROW:
		ch, _ := x.(*Chan)
		v, ok := r.chanRecv(ch)
		if in.CommaOk {
			return Tuple{v, Bool{C: ok}}
		}
		return v
	case token.NOT:
		b := x.(Bool)
		if b.T == nil {
			return Bool{C: !b.C}
		}
		return Bool{T: r.TT.Not(b.T)}
	case token.SUB:
		n := x.(Num)
		if n.T == nil {
			return Num{W: n.W, Signed: n.Signed, C: (-n.C) & mask(n.W)}
		}
		return Num{W: n.W, Signed: n.Signed, T: r.TT.Un("bvneg", n.T)}
	case token.XOR:
		n := x.(Num)
		if n.T == nil {
			return Num{W: n.W, Signed: n.Signed, C: (^n.C) & mask(n.W)}
		}
		return Num{W: n.W, Signed: n.Signed, T: r.TT.Un("bvnot", n.T)}
	}
	panic("unop " + in.Op.String())
}

func (r *Run) binop(op token.Token, t types.Type, x, y Value) Value {
	switch x := x.(type) {
	case Num:
		return r.numBinop(op, x, y.(Num))
	case Bool:
		yb := y.(Bool)
		xt, yt := r.boolTerm(x), r.boolTerm(yb)
		var res *Term
		switch op {
		case token.EQL:
			res = r.TT.Eq(xt, yt)
		case token.NEQ:
			res = r.TT.Not(r.TT.Eq(xt, yt))
		default:
			panic("bool binop " + op.String())
		}
		return termBool(res)
	case Ptr:
		yp, _ := y.(Ptr)
		switch op {
		case token.EQL:
			return Bool{C: x == yp}
		case token.NEQ:
			return Bool{C: x != yp}
		}
	case Str:
		if sy, ok := y.(SymStr); ok {
			b := r.symStrEq(strToSym(x), sy)
			if op == token.NEQ {
				return r.unopNot(b)
			}
			if op == token.EQL {
				return b
			}
			panic("symstr op")
		}
		ys := y.(Str)
		switch op {
		case token.EQL:
			return Bool{C: x == ys}
		case token.NEQ:
			return Bool{C: x != ys}
		case token.ADD:
			return x + ys
		case token.LSS:
			return Bool{C: x < ys}
		}
	case Iface:
		b := r.valEq(x, y)
		if op == token.NEQ {
			return r.unopNot(b)
		}
		return b
	case Slice:
		// comparison with nil only
		ys := y.(Slice)
		isnil := x.Nil
		if !ys.Nil {
			isnil = ys.Nil
		}
		_ = ys
		eq := isnil
		if op == token.NEQ {
			eq = !eq
		}
		return Bool{C: eq}
	case *Closure:
		yc, _ := y.(*Closure)
		eq := x == nil && yc == nil
		if op == token.NEQ {
			eq = !eq
		}
		return Bool{C: eq}
	case *Map:
		ym, _ := y.(*Map)
		eq := x == ym
		if op == token.NEQ {
			eq = !eq
		}
		return Bool{C: eq}
	case FSym:
		return r.fsymBinop(op, x, y)
	case Struct, Array, SymStr, UPtr, *Chan, float64:
		if _, ok := y.(FSym); ok {
			return r.fsymBinop(op, x, y)
		}
		if f, ok := x.(float64); ok && op != token.EQL && op != token.NEQ {
			return floatBinop(op, f, y.(float64))
		}
		b := r.valEq(x, y)
		if op == token.NEQ {
			return r.unopNot(b)
		}
		return b
	}
	panic(fmt.Sprintf("binop %s on %T", op, x))
}

func ifaceEq(a, b Iface) bool {
	if a.T == nil || b.T == nil {
		return a.T == nil && b.T == nil
	}
	if !types.Identical(a.T, b.T) {
		return false
	}
	switch av := a.V.(type) {
	case Ptr:
		return av == b.V.(Ptr)
	case Str:
		return av == b.V.(Str)
	case Num:
		bn := b.V.(Num)
		if av.T == nil && bn.T == nil {
			return av.C == bn.C
		}
	}
	panic(fmt.Sprintf("ifaceEq on %T", a.V))
}

func termBool(t *Term) Bool {
	switch t.op {
	case "true":
		return Bool{C: true}
	case "false":
		return Bool{C: false}
	}
	return Bool{T: t}
}

func (r *Run) numBinop(op token.Token, x, y Num) Value {
	w, s := x.W, x.Signed
	if x.T == nil && y.T == nil {
		a, b := x.C, y.C
		sa, sb := int64(signExtend(a, w)), int64(signExtend(b, w))
		res := func(v uint64) Value { return Num{W: w, Signed: s, C: v & mask(w)} }
		switch op {
		case token.ADD:
			return res(a + b)
		case token.SUB:
			return res(a - b)
		case token.MUL:
			return res(a * b)
		case token.QUO:
			if b == 0 {
				panic(targetPanic{Str("integer divide by zero")})
			}
			if s {
				return res(uint64(sa / sb))
			}
			return res(a / b)
		case token.REM:
			if b == 0 {
				panic(targetPanic{Str("integer divide by zero")})
			}
			if s {
				return res(uint64(sa % sb))
			}
			return res(a % b)
		case token.AND:
			return res(a & b)
		case token.OR:
			return res(a | b)
		case token.XOR:
			return res(a ^ b)
		case token.AND_NOT:
			return res(a &^ b)
		case token.SHL:
			if b >= uint64(w) {
				return res(0)
			}
			return res(a << b)
		case token.SHR:
			if s {
				if b >= uint64(w) {
					b = uint64(w - 1)
				}
				return res(uint64(sa >> b))
			}
			if b >= uint64(w) {
				return res(0)
			}
			return res(a >> b)
		case token.EQL:
			return Bool{C: a == b}
		case token.NEQ:
			return Bool{C: a != b}
		case token.LSS:
			if s {
				return Bool{C: sa < sb}
			}
			return Bool{C: a < b}
		case token.LEQ:
			if s {
				return Bool{C: sa <= sb}
			}
			return Bool{C: a <= b}
		case token.GTR:
			if s {
				return Bool{C: sa > sb}
			}
			return Bool{C: a > b}
		case token.GEQ:
			if s {
				return Bool{C: sa >= sb}
			}
			return Bool{C: a >= b}
		}
		panic("num binop " + op.String())
	}
	xt := r.numTerm(x)
	yt := r.numTerm(y)
	if yt.w != xt.w { // shifts: y may have different width
		if yt.w < xt.w {
			yt = r.TT.ZeroExt(xt.w-yt.w, yt)
		} else {
			// saturate: if high bits set → >= w; spike: truncate (unsound for huge shifts)
			yt = r.TT.Extract(xt.w-1, 0, yt)
		}
	}
	bv := func(o string) Value { return Num{W: w, Signed: s, T: r.TT.Bin(o, xt, yt)} }
	cmp := func(us, ss string) Value {
		if s {
			return termBool(r.TT.Bin(ss, xt, yt))
		}
		return termBool(r.TT.Bin(us, xt, yt))
	}
	switch op {
	case token.ADD:
		return bv("bvadd")
	case token.SUB:
		return bv("bvsub")
	case token.MUL:
		return bv("bvmul")
	case token.AND:
		return bv("bvand")
	case token.OR:
		return bv("bvor")
	case token.XOR:
		return bv("bvxor")
	case token.SHL:
		return bv("bvshl")
	case token.SHR:
		if s {
			return bv("bvashr")
		}
		return bv("bvlshr")
	case token.QUO:
		if s {
			return bv("bvsdiv")
		}
		return bv("bvudiv")
	case token.REM:
		if s {
			return bv("bvsrem")
		}
		return bv("bvurem")
	case token.EQL:
		return termBool(r.TT.Eq(xt, yt))
	case token.NEQ:
		return termBool(r.TT.Not(r.TT.Eq(xt, yt)))
	case token.LSS:
		return cmp("bvult", "bvslt")
	case token.LEQ:
		return cmp("bvule", "bvsle")
	case token.GTR:
		return cmp("bvugt", "bvsgt")
	case token.GEQ:
		return cmp("bvuge", "bvsge")
	}
	panic("sym num binop " + op.String())
}

func (r *Run) conv(dst, src types.Type, x Value) Value {
	du := dst.Underlying()
	switch x := x.(type) {
	case Num:
		if db, ok := du.(*types.Basic); ok {
			if w, s, ok := basicInfo(db); ok {
				if x.T == nil {
					c := x.C
					if x.Signed {
						c = signExtend(c, x.W)
					}
					return Num{W: w, Signed: s, C: c & mask(w)}
				}
				t := x.T
				if w < x.W {
					t = r.TT.Extract(w-1, 0, t)
				} else if w > x.W {
					if x.Signed {
						t = r.TT.SignExt(w-x.W, t)
					} else {
						t = r.TT.ZeroExt(w-x.W, t)
					}
				}
				return Num{W: w, Signed: s, T: t}
			}
			if db.Kind() == types.Float64 {
				if x.T != nil {
					op := "(_ to_fp_unsigned 11 53) RNE"
					if x.Signed {
						op = "(_ to_fp 11 53) RNE"
					}
					return FSym{T: r.TT.mk(op, -64, 0, "", x.T)}
				}
				if x.Signed {
					return float64(int64(signExtend(x.C, x.W)))
				}
				return float64(x.C)
			}
			if db.Kind() == types.String {
				return Str(string(rune(x.C)))
			}
		}
	case Ptr:
		if b, ok := du.(*types.Basic); ok && b.Kind() == types.UnsafePointer {
			return UPtr{P: x}
		}
		if _, ok := du.(*types.Pointer); ok {
			return x
		}
	case UPtr:
		if _, ok := du.(*types.Pointer); ok {
			return Ptr(x.P)
		}
		return x
	case Str:
		if sl, ok := du.(*types.Slice); ok {
			_ = sl
			out := make([]Value, len(x))
			for i := 0; i < len(x); i++ {
				out[i] = Num{W: 8, C: uint64(x[i])}
			}
			return Slice{S: out}
		}
		return x
	case Slice:
		if b, ok := du.(*types.Basic); ok && b.Kind() == types.String {
			bs := make([]byte, len(x.S))
			sym := false
			for i, e := range x.S {
				n := e.(Num)
				if n.T != nil {
					sym = true
					break
				}
				bs[i] = byte(n.C)
			}
			if sym {
				return SymStr{B: append([]Value(nil), x.S...)}
			}
			return Str(bs)
		}
	case SymStr:
		if _, ok := du.(*types.Slice); ok {
			return Slice{S: append([]Value(nil), x.B...)}
		}
		return x
	case FSym:
		if db, ok := du.(*types.Basic); ok {
			if w, sg, ok := basicInfo(db); ok {
				op := fmt.Sprintf("(_ fp.to_ubv %d) RTZ", w)
				if sg {
					op = fmt.Sprintf("(_ fp.to_sbv %d) RTZ", w)
				}
				return Num{W: w, Signed: sg, T: r.TT.mk(op, w, 0, "", x.T)}
			}
			return x
		}
	case float64:
		if db, ok := du.(*types.Basic); ok {
			if w, s, ok := basicInfo(db); ok {
				if s {
					return Num{W: w, Signed: s, C: uint64(int64(x)) & mask(w)}
				}
				return Num{W: w, Signed: s, C: uint64(x) & mask(w)}
			}
			return x
		}
	}
	panic(fmt.Sprintf("conv %T → %s", x, dst))
}

func (r *Run) slice(in *ssa.Slice, x, lo, hi, max Value) Value {
	var elems []Value
	isnil := false
	switch x := x.(type) {
	case Slice:
		elems = x.S
		isnil = x.Nil
	case Ptr:
		elems = (*x).(Array)
	case Str:
		l, h := 0, len(x)
		if lo != nil {
			l = int(r.concretize(lo.(Num), 0, uint64(len(x))))
		}
		if hi != nil {
			h = int(r.concretize(hi.(Num), 0, uint64(len(x))))
		}
		return x[l:h]
	default:
		panic(fmt.Sprintf("slice of %T", x))
	}
	l, h, m := 0, len(elems), cap(elems)
	bound := func(v Value) int {
		n := v.(Num)
		if n.T != nil {
			oob := r.TT.Bin("bvugt", n.T, r.TT.BV(n.W, uint64(cap(elems))))
			if r.branch(Bool{T: oob}) {
				panic(targetPanic{Str(fmt.Sprintf("slice bounds out of range (symbolic bound, capacity %d)", cap(elems)))})
			}
		}
		return int(int64(r.concretize(n, 0, uint64(cap(elems)))))
	}
	if lo != nil {
		l = bound(lo)
	}
	if hi != nil {
		h = bound(hi)
	}
	if max != nil {
		m = bound(max)
	}
	if l < 0 || l > h || h > m || m > cap(elems) {
		panic(targetPanic{Str(fmt.Sprintf("slice bounds out of range [%d:%d:%d] cap %d", l, h, m, cap(elems)))})
	}
	if isnil && l == 0 && h == 0 {
		return Slice{Nil: true}
	}
	return Slice{S: elems[l:h:m]}
}

func (r *Run) builtin(fr *Frame, b *ssa.Builtin, args []Value) Value {
	switch b.Name() {
	case "recover":
		if fr != nil && fr.caller != nil && fr.caller.panicking {
			fr.caller.panicking = false
			v := fr.caller.panicVal
			if _, ok := v.(Iface); !ok {
				v = Iface{T: types.Typ[types.String], V: v}
			}
			return v
		}
		return Iface{}
	case "len":
		switch x := args[0].(type) {
		case Slice:
			return Num{W: 64, Signed: true, C: uint64(len(x.S))}
		case Str:
			return Num{W: 64, Signed: true, C: uint64(len(x))}
		case SymStr:
			return Num{W: 64, Signed: true, C: uint64(len(x.B))}
		case *Chan:
			return Num{W: 64, Signed: true, C: uint64(len(x.buf))}
		case Array:
			return Num{W: 64, Signed: true, C: uint64(len(x))}
		case *Map:
			if x == nil {
				return Num{W: 64, Signed: true}
			}
			return Num{W: 64, Signed: true, C: uint64(len(x.Keys))}
		}
	case "close":
		r.chanClose(args[0].(*Chan))
		return nil
	case "delete":
		m, _ := args[0].(*Map)
		r.mapDelete(m, args[1])
		return nil
	case "cap":
		return Num{W: 64, Signed: true, C: uint64(cap(args[0].(Slice).S))}
	case "copy":
		dst := args[0].(Slice).S
		var n int
		switch src := args[1].(type) {
		case Slice:
			n = copy(dst, src.S)
		case Str:
			n = len(src)
			if len(dst) < n {
				n = len(dst)
			}
			for i := 0; i < n; i++ {
				dst[i] = Num{W: 8, C: uint64(src[i])}
			}
		}
		return Num{W: 64, Signed: true, C: uint64(n)}
	case "append":
		a := args[0].(Slice)
		switch b := args[1].(type) {
		case Slice:
			if a.Nil && len(b.S) == 0 {
				return a
			}
			return Slice{S: append(a.S, b.S...)}
		case Str:
			s := a.S
			for i := 0; i < len(b); i++ {
				s = append(s, Num{W: 8, C: uint64(b[i])})
			}
			return Slice{S: s}
		}
	case "min", "max":
		x, y := args[0].(Num), args[1].(Num)
		lt := r.numBinop(token.LSS, x, y).(Bool)
		if b.Name() == "max" {
			lt = r.numBinop(token.GTR, x, y).(Bool)
		}
		if r.branch(lt) {
			return x
		}
		return y
	}
	panic("builtin " + b.Name() + fmt.Sprintf(" %T", args[0]))
}

func storeLike(old, nv Value) Value {
	// keep the representation (Ptr vs UPtr) of the cell
	switch old.(type) {
	case Ptr:
		if u, ok := nv.(UPtr); ok {
			return Ptr(u.P)
		}
	case UPtr:
		if p, ok := nv.(Ptr); ok {
			return UPtr{P: p}
		}
	}
	return nv
}

func (m *Machine) matchIntr(name string) func(r *Run, fr *Frame, args []Value) Value {
	// generated protobuf enums: String() goes through the reflection-driven descriptor tables, which are not
	// interpreted; the name is only ever used for display, the stub renders the number
	if strings.HasPrefix(name, "(github.com/KevoDB/kevo/") && strings.Contains(name, "/proto") && strings.HasSuffix(name, ").String") && !strings.Contains(name, "*") {
		return func(r *Run, fr *Frame, a []Value) Value {
			if n, ok := a[0].(Num); ok && n.T == nil {
				return Str(fmt.Sprintf("ENUM_%d", int64(n.C)))
			}
			return Str("ENUM")
		}
	}
	if strings.HasPrefix(name, "sync/atomic.") {
		op := name[len("sync/atomic."):]
		switch {
		case strings.HasPrefix(op, "Load"):
			return func(r *Run, fr *Frame, a []Value) Value {
				r.atomicOp(a[0].(Ptr), false, fr)
				v := *a[0].(Ptr)
				if op == "LoadPointer" {
					if p, ok := v.(Ptr); ok {
						return UPtr{P: p}
					}
				}
				return v
			}
		case strings.HasPrefix(op, "Store"):
			return func(r *Run, fr *Frame, a []Value) Value {
				p := a[0].(Ptr)
				r.atomicOp(p, true, fr)
				*p = storeLike(*p, a[1])
				return nil
			}
		case strings.HasPrefix(op, "Add"):
			return func(r *Run, fr *Frame, a []Value) Value {
				p := a[0].(Ptr)
				r.atomicOp(p, true, fr)
				*p = r.numBinop(token.ADD, (*p).(Num), a[1].(Num))
				return *p
			}
		case strings.HasPrefix(op, "Swap"):
			return func(r *Run, fr *Frame, a []Value) Value {
				p := a[0].(Ptr)
				r.atomicOp(p, true, fr)
				old := *p
				*p = storeLike(old, a[1])
				return old
			}
		case strings.HasPrefix(op, "CompareAndSwap"):
			return func(r *Run, fr *Frame, a []Value) Value {
				p := a[0].(Ptr)
				r.atomicOp(p, true, fr)
				if r.branch(r.valEq(storeLike(a[1], *p), a[1])) {
					*p = storeLike(*p, a[2])
					return Bool{C: true}
				}
				return Bool{C: false}
			}
		}
	}
	if strings.HasPrefix(name, "(*sync/atomic.Pointer[") {
		switch {
		case strings.HasSuffix(name, ").Load"):
			return func(r *Run, fr *Frame, args []Value) Value {
				f := (*args[0].(Ptr)).(Struct)
				r.atomicOp(&f[len(f)-1], false, fr)
				if u, ok := f[len(f)-1].(UPtr); ok {
					return Ptr(u.P)
				}
				return f[len(f)-1]
			}
		case strings.HasSuffix(name, ").Store"):
			return func(r *Run, fr *Frame, args []Value) Value {
				f := (*args[0].(Ptr)).(Struct)
				r.atomicOp(&f[len(f)-1], true, fr)
				f[len(f)-1] = args[1]
				return nil
			}
		}
	}
	return nil
}

var initDeny = map[string]bool{
	"os": true, "runtime": true, "syscall": true, "time": true, "reflect": true, "fmt": true, "sync": true,
	"sync/atomic": true, "net": true, "unsafe": true, "internal/poll": true, "math/rand": true, "log": true,
	"internal/godebug": true, "internal/bytealg": true, "hash/crc32": true, "unicode": true, "strconv": true,
	"context": true, "encoding/json": true, "path/filepath": true, "math": true, "internal/reflectlite": true,
}

func (m *Machine) initAllowed(path string) bool {
	if initDeny[path] {
		return false
	}
	if strings.HasPrefix(path, "google.golang.org/") || strings.HasPrefix(path, "golang.org/x/") || strings.HasPrefix(path, "internal/") || strings.HasPrefix(path, "runtime/") {
		return false
	}
	return true
}

type HostCall struct {
	Obj    *HostObj
	Method string
}

func (r *Run) unopNot(b Bool) Bool {
	if b.T == nil {
		return Bool{C: !b.C}
	}
	return Bool{T: r.TT.Not(b.T)}
}

func floatBinop(op token.Token, a, b float64) Value {
	switch op {
	case token.ADD:
		return a + b
	case token.SUB:
		return a - b
	case token.MUL:
		return a * b
	case token.QUO:
		return a / b
	case token.LSS:
		return Bool{C: a < b}
	case token.LEQ:
		return Bool{C: a <= b}
	case token.GTR:
		return Bool{C: a > b}
	case token.GEQ:
		return Bool{C: a >= b}
	}
	panic("float op " + op.String())
}

var noSpawn = map[string]bool{"backgroundFlush": true, "compactionWorker": true, "cleanupStaleTx": true, "monitorLoop": true}

type Violation struct {
	Msg        string
	Kind       string // assert | panic | race | deadlock | hang
	Choices    []string
	Ints       []int
	Vars       map[string]uint64
	Region     string // named known-finding region of the harness' input space the counterexample lies in ("" = none)
	Decision   []int
	Threads    bool
	Crash      map[string]string // post-crash directory image (path -> hex), when the path crashed
	CrashAt    string
	CrashKind  int
	Ungrounded int
	Outs       []int64
}

const subTok = token.SUB

// FSym is a symbolic float64 (SMT FloatingPoint 11 53); only comparisons are supported.
type FSym struct{ T *Term }

func (r *Run) fterm(v Value) *Term {
	switch v := v.(type) {
	case FSym:
		return v.T
	case float64:
		bits := r.TT.BV(64, math.Float64bits(v))
		return r.TT.mk("(_ to_fp 11 53)", -64, 0, "", bits)
	}
	panic(fmt.Sprintf("fterm %T", v))
}

func (r *Run) fsymBinop(op token.Token, x, y Value) Value {
	a, b := r.fterm(x), r.fterm(y)
	var o string
	neg := false
	switch op {
	case token.LSS:
		o = "fp.lt"
	case token.LEQ:
		o = "fp.leq"
	case token.GTR:
		o = "fp.gt"
	case token.GEQ:
		o = "fp.geq"
	case token.EQL:
		o = "fp.eq"
	case token.NEQ:
		o, neg = "fp.eq", true
	case token.ADD, token.SUB, token.MUL, token.QUO:
		// arithmetic on symbolic floats is encoded (round-nearest-even); kevo uses it only to format log lines
		fo := map[token.Token]string{token.ADD: "fp.add RNE", token.SUB: "fp.sub RNE", token.MUL: "fp.mul RNE", token.QUO: "fp.div RNE"}[op]
		return FSym{T: r.TT.mk(fo, -64, 0, "", a, b)}
	default:
		panic("symbolic float operation is outside the engine: " + op.String())
	}
	t := r.TT.mk(o, 0, 0, "", a, b)
	if neg {
		t = r.TT.Not(t)
	}
	return Bool{T: t}
}

const symIndexThreshold = 1

// SymPtr is the address of elems[idx] for a symbolic idx (in range by path condition).
type SymPtr struct {
	Elems []Value
	Idx   Num
}

func (r *Run) symLoad(sp *SymPtr) Value {
	first := sp.Elems[0].(Num)
	res := r.numTerm(sp.Elems[len(sp.Elems)-1].(Num))
	for i := len(sp.Elems) - 2; i >= 0; i-- {
		c := r.numTerm(sp.Elems[i].(Num))
		if c == res {
			continue
		}
		res = r.TT.Ite(r.TT.Eq(sp.Idx.T, r.TT.BV(sp.Idx.W, uint64(i))), c, res)
	}
	r.SymLoads++
	return Num{W: first.W, Signed: first.Signed, T: res}
}

func (r *Run) symStore(sp *SymPtr, v Num) {
	vt := r.numTerm(v)
	for i := range sp.Elems {
		old := sp.Elems[i].(Num)
		ot := r.numTerm(old)
		if ot == vt {
			continue
		}
		sp.Elems[i] = Num{W: old.W, Signed: old.Signed, T: r.TT.Ite(r.TT.Eq(sp.Idx.T, r.TT.BV(sp.Idx.W, uint64(i))), vt, ot)}
	}
	r.SymStores++
}
