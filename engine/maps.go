package main

import (
	"fmt"
	"go/token"
	"go/types"
	"strings"

	"golang.org/x/tools/go/ssa"
)

// valEq returns a Bool (possibly symbolic) for equality of two values of comparable type.
func (r *Run) valEq(a, b Value) Bool {
	switch a := a.(type) {
	case Num:
		return r.numBinop(token.EQL, a, b.(Num)).(Bool)
	case Bool:
		return termBool(r.TT.Eq(r.boolTerm(a), r.boolTerm(b.(Bool))))
	case Str:
		switch b := b.(type) {
		case Str:
			return Bool{C: a == b}
		case SymStr:
			return r.symStrEq(strToSym(a), b)
		}
	case SymStr:
		switch b := b.(type) {
		case Str:
			return r.symStrEq(a, strToSym(b))
		case SymStr:
			return r.symStrEq(a, b)
		}
	case Ptr:
		bp, _ := b.(Ptr)
		return Bool{C: a == bp}
	case UPtr:
		return Bool{C: a.P == b.(UPtr).P}
	case Iface:
		bi := b.(Iface)
		if a.T == nil || bi.T == nil {
			return Bool{C: a.T == nil && bi.T == nil}
		}
		if !types.Identical(a.T, bi.T) {
			return Bool{C: false}
		}
		return r.valEq(a.V, bi.V)
	case Struct:
		bs := b.(Struct)
		res := r.TT.True()
		for i := range a {
			res = r.TT.And(res, r.boolTerm(r.valEq(a[i], bs[i])))
		}
		return termBool(res)
	case Array:
		bs := b.(Array)
		res := r.TT.True()
		for i := range a {
			res = r.TT.And(res, r.boolTerm(r.valEq(a[i], bs[i])))
		}
		return termBool(res)
	case *Closure:
		bc, _ := b.(*Closure)
		return Bool{C: a == nil && bc == nil}
	case *Map:
		bm, _ := b.(*Map)
		return Bool{C: a == bm}
	case *Chan:
		bc, _ := b.(*Chan)
		return Bool{C: a == bc}
	case *HostObj:
		bh, _ := b.(*HostObj)
		return Bool{C: a == bh}
	case float64:
		return Bool{C: a == b.(float64)}
	case nil:
		return Bool{C: b == nil}
	}
	panic(fmt.Sprintf("valEq %T", a))
}

type SymStr struct{ B []Value } // string with (possibly) symbolic bytes, concrete length

func strToSym(s Str) SymStr {
	out := make([]Value, len(s))
	for i := 0; i < len(s); i++ {
		out[i] = Num{W: 8, C: uint64(s[i])}
	}
	return SymStr{B: out}
}

func (r *Run) symStrEq(a, b SymStr) Bool {
	if len(a.B) != len(b.B) {
		return Bool{C: false}
	}
	_, eq := r.lexLess(a.B, b.B)
	return termBool(eq)
}

func (r *Run) mapFind(m *Map, k Value) int {
	if m == nil {
		return -1
	}
	for i, mk := range m.Keys {
		if r.branch(r.valEq(mk, k)) {
			return i
		}
	}
	return -1
}

func (r *Run) mapLookup(in *ssa.Lookup, x, k Value) Value {
	switch x := x.(type) {
	case *Map:
		i := r.mapFind(x, k)
		var v Value
		if i >= 0 {
			v = copyVal(x.Vals[i])
		} else {
			v = zero(in.X.Type().Underlying().(*types.Map).Elem())
		}
		if in.CommaOk {
			return Tuple{v, Bool{C: i >= 0}}
		}
		return v
	case Str:
		return Num{W: 8, C: uint64(x[r.index(k.(Num), len(x))])}
	case SymStr:
		return x.B[r.index(k.(Num), len(x.B))]
	}
	panic(fmt.Sprintf("lookup on %T", x))
}

func (r *Run) mapUpdate(m *Map, k, v Value) {
	if m == nil {
		panic(targetPanic{Str("assignment to entry in nil map")})
	}
	i := r.mapFind(m, k)
	if i >= 0 {
		m.Vals[i] = copyVal(v)
		return
	}
	m.Keys = append(m.Keys, copyVal(k))
	m.Vals = append(m.Vals, copyVal(v))
}

func (r *Run) mapDelete(m *Map, k Value) {
	i := r.mapFind(m, k)
	if i >= 0 {
		m.Keys = append(m.Keys[:i:i], m.Keys[i+1:]...)
		m.Vals = append(m.Vals[:i:i], m.Vals[i+1:]...)
	}
}

// iterators for Range/Next
type MapIter struct {
	keys, vals []Value
	i          int
}
type StrIter struct {
	s string
	i int
}

type Chan struct {
	buf    []Value
	cap    int
	closed bool
	timer  *TimerState
	onFire func()
	id     Value // identity cell for happens-before
	zero   Value
}

type TimerState struct {
	ticker  bool // never fires on its own (background loops become daemons)
	fired   bool
	stopped bool
}

// HostObj is an engine-side object exposed to the target behind an interface or pointer.
type HostObj struct {
	Kind string
	Data interface{}
}

// mapOrder: Go leaves the iteration order of a map unspecified. With the MapOrders option the order in which kevo's own
// code (not the harness, not the standard library) walks a map of 2..3 entries is a choice point over all
// permutations, and for a larger map over {insertion order, reversed}; without the option insertion order is used.
var perms3 = [][]int{{0, 1, 2}, {0, 2, 1}, {1, 0, 2}, {1, 2, 0}, {2, 0, 1}, {2, 1, 0}}

func (r *Run) mapOrder(fr *Frame, it *MapIter) {
	if r.Opts == nil || !r.Opts.MapOrders || len(it.keys) < 2 || r.InInit != 0 {
		return
	}
	fn := fr.fn
	for fn.Parent() != nil {
		fn = fn.Parent()
	}
	if fn.Pkg == nil || !strings.HasPrefix(fn.Pkg.Pkg.Path(), "github.com/KevoDB/kevo/") || strings.HasPrefix(fn.Name(), "Verif") || strings.Contains(fn.Pkg.Pkg.Path(), "zzverif") {
		return
	}
	n := len(it.keys)
	var perm []int
	switch n {
	case 2:
		perm = [][]int{{0, 1}, {1, 0}}[r.decide(2, func(int) *Term { return nil })]
	case 3:
		perm = perms3[r.decide(6, func(int) *Term { return nil })]
	default:
		if r.decide(2, func(int) *Term { return nil }) == 0 {
			return
		}
		for i := n - 1; i >= 0; i-- {
			perm = append(perm, i)
		}
	}
	r.MapOrderForks++
	r.Choices = append(r.Choices, fmt.Sprintf("maporder@%s=%v", fn.Name(), perm))
	ks, vs := make([]Value, n), make([]Value, n)
	for i, j := range perm {
		ks[i], vs[i] = it.keys[j], it.vals[j]
	}
	it.keys, it.vals = ks, vs
}
