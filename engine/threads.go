package main

import (
	"fmt"
	"go/token"
	"os"
)

type VC []int

func (a VC) join(b VC) VC {
	n := len(a)
	if len(b) > n {
		n = len(b)
	}
	out := make(VC, n)
	for i := range out {
		if i < len(a) {
			out[i] = a[i]
		}
		if i < len(b) && b[i] > out[i] {
			out[i] = b[i]
		}
	}
	return out
}
func (a VC) get(i int) int {
	if i < len(a) {
		return a[i]
	}
	return 0
}
func (a VC) copy() VC { return append(VC(nil), a...) }
func (a VC) inc(i int) VC {
	for len(a) <= i {
		a = append(a, 0)
	}
	a[i]++
	return a
}

type Thread struct {
	id         int
	wake       chan struct{}
	done       bool
	blocked    func() bool // non-nil: thread is blocked until it returns true
	vc         VC
	name       string
	doneCh     chan struct{}
	daemon     bool
	parked     bool
	evaluating bool
	where      string
	quiescing  bool
}

type lockState struct {
	writer  *Thread
	readers map[*Thread]int
	vc      VC
	// goroutines that have called Lock on an RWMutex and wait for its readers to leave: sync.RWMutex makes every
	// later RLock wait behind them (which is why recursive read locking deadlocks as soon as a writer arrives)
	waitingW map[*Thread]bool
}

type access struct {
	tid    int
	clk    int
	atomic bool
	where  string
}
type cellInfo struct {
	w     *access
	reads []access
}

type Sched struct {
	threads     []*Thread
	cur         *Thread
	preemptions int
	bound       int
	locks       map[*Value]*lockState
	syncVC      map[*Value]VC // atomics, waitgroups, channels
	wg          map[*Value]int
	cells       map[*Value]*cellInfo
	races       map[string]bool
	mainDone    chan struct{}
	fatal       interface{}
	active      bool // more than one thread has existed
	switches    int
	cleaning    bool
}

func NewSched(bound int) *Sched {
	s := &Sched{bound: bound, locks: map[*Value]*lockState{}, syncVC: map[*Value]VC{}, wg: map[*Value]int{}, cells: map[*Value]*cellInfo{}, races: map[string]bool{}}
	t := &Thread{id: 0, wake: make(chan struct{}, 1), name: "main"}
	t.vc = VC{1}
	s.threads = []*Thread{t}
	s.cur = t
	return s
}

func (r *Run) enabled() []*Thread {
	var out []*Thread
	for _, t := range r.Sch.threads {
		if t.done {
			continue
		}
		if t.blocked != nil && !r.evalBlocked(t) {
			continue
		}
		out = append(out, t)
	}
	return out
}

// evalBlocked evaluates a thread's wake-up predicate; predicates that look at other threads may recurse,
// a thread whose predicate is already being evaluated counts as not runnable.
func (r *Run) evalBlocked(t *Thread) bool {
	if t.evaluating {
		return false
	}
	t.evaluating = true
	defer func() { t.evaluating = false }()
	return t.blocked()
}

// yield is a scheduling point of the current thread. If block is non-nil the thread waits until block() is true.
func (r *Run) yield(block func() bool) {
	s := r.Sch
	if !s.active {
		if block != nil && !block() {
			panic(targetPanic{Str("deadlock: the only goroutine blocks forever")})
		}
		return
	}
	if s.fatal != nil {
		return
	}
	me := s.cur
	me.blocked = block
	if block != nil {
		me.where = r.curFn
	}
	if r.Opts != nil && r.Opts.Trace {
		fmt.Fprintf(os.Stderr, "  [%s] sched point in %s (blocking=%v)\n", me.name, r.curFn, block != nil)
	}
	for {
		en := r.enabled()
		if len(en) == 0 {
			me.blocked = nil
			if me.daemon {
				panic(pathAbort{"daemon parked"})
			}
			panic(targetPanic{Str("deadlock: all goroutines are blocked (" + me.name + " waits forever) " + r.threadDump())})
		}
		// candidates: bounded preemption
		meEnabled := false
		for _, t := range en {
			if t == me {
				meEnabled = true
			}
		}
		cands := en
		if meEnabled && s.preemptions >= s.bound {
			cands = []*Thread{me}
		}
		c := 0
		if len(cands) > 1 {
			c = r.decide(len(cands), func(i int) *Term { return nil })
		}
		next := cands[c]
		if next == me {
			me.blocked = nil
			return
		}
		if meEnabled {
			s.preemptions++
		}
		s.switches++
		s.cur = next
		next.wake <- struct{}{}
		<-me.wake
		if s.fatal != nil {
			panic(pathAbort{"sibling thread failed"})
		}
		s.cur = me
		if me.blocked == nil || r.evalBlocked(me) {
			me.blocked = nil
			return
		}
	}
}

func (r *Run) spawn(fnv Value, args []Value) {
	s := r.Sch
	s.active = true
	parent := s.cur
	t := &Thread{id: len(s.threads), wake: make(chan struct{}, 1), name: fmt.Sprintf("g%d", len(s.threads)), doneCh: make(chan struct{})}
	t.vc = parent.vc.copy().inc(t.id)
	parent.vc = parent.vc.inc(parent.id)
	s.threads = append(s.threads, t)
	go func() {
		<-t.wake
		defer func() {
			if x := recover(); x != nil {
				if s.fatal == nil {
					s.fatal = x
				}
			}
			t.done = true
			close(t.doneCh)
			// hand over to someone else (or back to main controller)
			r.threadExit(t)
		}()
		if s.fatal == nil {
			r.call(nil, fnv, args, 0)
		}
	}()
	r.yield(nil)
}

func (r *Run) threadExit(t *Thread) {
	s := r.Sch
	if s.cleaning {
		return
	}
	if s.fatal != nil {
		// let the main thread observe the failure; the controller cleans up the rest
		if m := s.threads[0]; m != t && !m.done {
			s.cur = m
			m.wake <- struct{}{}
		}
		return
	}
	en := r.enabled()
	if len(en) == 0 {
		// remaining threads (if any) are blocked forever
		for _, o := range s.threads {
			if !o.done && !o.daemon {
				s.fatal = targetPanic{Str("deadlock: goroutine " + o.name + " blocked forever")}
				o.wake <- struct{}{}
				return
			}
		}
		return
	}
	c := 0
	if len(en) > 1 {
		func() {
			defer func() {
				if x := recover(); x != nil {
					s.fatal = x
				}
			}()
			c = r.decide(len(en), func(i int) *Term { return nil })
		}()
	}
	s.cur = en[c]
	en[c].wake <- struct{}{}
}

// ---- happens-before and race detection ----

func (r *Run) acquireVC(obj *Value) {
	s := r.Sch
	if v, ok := s.syncVC[obj]; ok {
		s.cur.vc = s.cur.vc.join(v)
	}
}
func (r *Run) releaseVC(obj *Value) {
	s := r.Sch
	s.syncVC[obj] = s.syncVC[obj].join(s.cur.vc)
	s.cur.vc = s.cur.vc.inc(s.cur.id)
}

func (r *Run) where(fr *Frame) string {
	if fr == nil {
		return "?"
	}
	return fr.fn.String()
}

func (r *Run) access(p *Value, write, atomic bool, where string) {
	s := r.Sch
	if s == nil || !s.active || p == nil || r.InInit > 0 {
		return // (package initialisation is run lazily by whichever thread first touches the package; Go runs it before main)
	}
	t := s.cur
	ci := s.cells[p]
	if ci == nil {
		ci = &cellInfo{}
		s.cells[p] = ci
	}
	hb := func(a *access) bool { return a.tid == t.id || a.clk <= t.vc.get(a.tid) }
	report := func(a *access, kind string) {
		k := fmt.Sprintf("%s: %s  vs  %s", kind, a.where, where)
		s.races[k] = true
	}
	if ci.w != nil && !(ci.w.atomic && atomic) && !hb(ci.w) {
		if write {
			report(ci.w, "write/write")
		} else {
			report(ci.w, "write/read")
		}
	}
	if write {
		for i := range ci.reads {
			a := &ci.reads[i]
			if !(a.atomic && atomic) && !hb(a) {
				report(a, "read/write")
			}
		}
		ci.w = &access{tid: t.id, clk: t.vc.get(t.id), atomic: atomic, where: where}
		ci.reads = ci.reads[:0]
	} else {
		for i := range ci.reads {
			if ci.reads[i].tid == t.id {
				ci.reads[i] = access{tid: t.id, clk: t.vc.get(t.id), atomic: atomic, where: where}
				return
			}
		}
		ci.reads = append(ci.reads, access{tid: t.id, clk: t.vc.get(t.id), atomic: atomic, where: where})
	}
}

// ---- locks ----

func (r *Run) lockOf(p Value) (*Value, *lockState) {
	cell := p.(Ptr)
	ls := r.Sch.locks[cell]
	if ls == nil {
		ls = &lockState{readers: map[*Thread]int{}}
		r.Sch.locks[cell] = ls
	}
	return cell, ls
}

func installThreads(m *Machine) {
	I := m.Intr
	lock := func(r *Run, fr *Frame, a []Value) Value {
		_, ls := r.lockOf(a[0])
		me := r.Sch.cur
		if ls.writer == me {
			panic(targetPanic{Str("self-deadlock: Lock of a mutex already held by this goroutine in " + r.where(fr))})
		}
		r.yield(func() bool {
			ok := ls.writer == nil && len(ls.readers) == 0
			if !ok && len(ls.readers) > 0 {
				if ls.waitingW == nil {
					ls.waitingW = map[*Thread]bool{}
				}
				ls.waitingW[me] = true
			}
			return ok
		})
		delete(ls.waitingW, me)
		ls.writer = r.Sch.cur
		r.Sch.cur.vc = r.Sch.cur.vc.join(ls.vc)
		return nil
	}
	unlock := func(r *Run, fr *Frame, a []Value) Value {
		_, ls := r.lockOf(a[0])
		if ls.writer == nil {
			panic(targetPanic{Str("unlock of unlocked mutex in " + r.where(fr))})
		}
		ls.writer = nil
		ls.vc = ls.vc.join(r.Sch.cur.vc)
		r.Sch.cur.vc = r.Sch.cur.vc.inc(r.Sch.cur.id)
		r.yield(nil)
		return nil
	}
	I["(*sync.Mutex).Lock"] = lock
	I["(*sync.Mutex).Unlock"] = unlock
	I["(*sync.RWMutex).Lock"] = lock
	I["(*sync.RWMutex).Unlock"] = unlock
	I["(*sync.RWMutex).RLock"] = func(r *Run, fr *Frame, a []Value) Value {
		_, ls := r.lockOf(a[0])
		r.yield(func() bool { return ls.writer == nil && len(ls.waitingW) == 0 })
		ls.readers[r.Sch.cur]++
		r.Sch.cur.vc = r.Sch.cur.vc.join(ls.vc)
		return nil
	}
	I["(*sync.RWMutex).RUnlock"] = func(r *Run, fr *Frame, a []Value) Value {
		_, ls := r.lockOf(a[0])
		me := r.Sch.cur
		if ls.readers[me] == 0 {
			// released by another goroutine than the acquirer: allowed by Go; find any reader
			found := false
			for t := range ls.readers {
				ls.readers[t]--
				if ls.readers[t] == 0 {
					delete(ls.readers, t)
				}
				found = true
				break
			}
			if !found {
				panic(targetPanic{Str("RUnlock of unlocked RWMutex in " + r.where(fr))})
			}
		} else {
			ls.readers[me]--
			if ls.readers[me] == 0 {
				delete(ls.readers, me)
			}
		}
		ls.vc = ls.vc.join(me.vc)
		me.vc = me.vc.inc(me.id)
		r.yield(nil)
		return nil
	}
	const vp = "github.com/KevoDB/kevo/pkg/zzverif/vsym."
	I[vp+"Held"] = func(r *Run, fr *Frame, a []Value) Value {
		ls := r.Sch.locks[a[0].(Iface).V.(Ptr)]
		switch {
		case ls == nil:
			return num(0)
		case ls.writer != nil:
			return num(2)
		case len(ls.readers) > 0:
			return num(1)
		}
		return num(0)
	}
	I[vp+"HeldByMe"] = func(r *Run, fr *Frame, a []Value) Value {
		ls := r.Sch.locks[a[0].(Iface).V.(Ptr)]
		me := r.Sch.cur
		return Bool{C: ls != nil && (ls.writer == me || ls.readers[me] > 0)}
	}
	I[vp+"BlockForever"] = func(r *Run, fr *Frame, a []Value) Value {
		r.Sch.cur.daemon = true
		r.yield(func() bool { return false })
		return nil
	}
	I[vp+"Quiesce"] = func(r *Run, fr *Frame, a []Value) Value {
		// let every other goroutine run until it finishes or blocks
		if !r.Sch.active {
			return nil
		}
		me := r.Sch.cur
		me.quiescing = true
		r.yield(func() bool {
			for _, t := range r.enabled2(me) {
				if !t.daemon {
					return false
				}
			}
			return true
		})
		me.quiescing = false
		return nil
	}
	I["time.Sleep"] = func(r *Run, fr *Frame, a []Value) Value {
		r.Clock += int64(a[0].(Num).C)
		if r.Sch.active {
			// sleeping is a voluntary switch: does not count as preemption
			r.Sch.preemptions--
			r.yield(nil)
			if r.Sch.preemptions < 0 {
				r.Sch.preemptions = 0
			}
		}
		return nil
	}
	// sync.Pool: Get may hand back any object put before or make a new one. Modelled as a stack per pool with a
	// decision at every Get on a non-empty pool: reuse the most recent object, or call New.
	I["(*sync.Pool).Put"] = func(r *Run, fr *Frame, a []Value) Value {
		r.stub("sync.Pool (Get forks: most recently put object, or New)")
		p := a[0].(Ptr)
		if x, ok := a[1].(Iface); ok && x.T == nil {
			return nil
		}
		if r.Pools == nil {
			r.Pools = map[*Value][]Value{}
		}
		r.Pools[p] = append(r.Pools[p], a[1])
		if r.Sch != nil && r.Sch.active {
			r.releaseVC(p)
		}
		return nil
	}
	I["(*sync.Pool).Get"] = func(r *Run, fr *Frame, a []Value) Value {
		r.stub("sync.Pool (Get forks: most recently put object, or New)")
		p := a[0].(Ptr)
		if lst := r.Pools[p]; len(lst) > 0 {
			if r.decide(2, func(int) *Term { return nil }) == 0 {
				x := lst[len(lst)-1]
				r.Pools[p] = lst[:len(lst)-1]
				if r.Sch != nil && r.Sch.active {
					r.acquireVC(p)
				}
				return x
			}
		}
		st := (*p).(Struct)
		if nf, ok := st[len(st)-1].(*Closure); ok && nf != nil {
			return r.call(fr, nf, nil, token.NoPos)
		}
		return Iface{}
	}
	I["(*sync.WaitGroup).Add"] = func(r *Run, fr *Frame, a []Value) Value {
		cell := a[0].(Ptr)
		r.Sch.wg[cell] += int(int64(a[1].(Num).C))
		if int64(a[1].(Num).C) < 0 {
			r.releaseVC(cell)
		}
		return nil
	}
	I["(*sync.WaitGroup).Done"] = func(r *Run, fr *Frame, a []Value) Value {
		cell := a[0].(Ptr)
		r.Sch.wg[cell]--
		r.releaseVC(cell)
		r.yield(nil)
		return nil
	}
	I["(*sync.WaitGroup).Wait"] = func(r *Run, fr *Frame, a []Value) Value {
		cell := a[0].(Ptr)
		r.yield(func() bool { return r.Sch.wg[cell] <= 0 })
		r.acquireVC(cell)
		return nil
	}
}

func (r *Run) atomicOp(p *Value, write bool, fr *Frame) {
	if r.Sch == nil || !r.Sch.active {
		return
	}
	r.yield(nil)
	r.access(p, write, true, r.where(fr)+" (atomic)")
	r.acquireVC(p)
	r.releaseVC(p)
}

// cleanupThreads unwinds every thread that is still alive after the harness returned or failed.
func (r *Run) cleanupThreads() {
	s := r.Sch
	s.cleaning = true
	if s.fatal == nil {
		s.fatal = pathAbort{"run over"}
	}
	for _, t := range s.threads[1:] {
		if !t.done {
			s.cur = t
			t.wake <- struct{}{}
			<-t.doneCh
		}
	}
}

// enabled2 lists threads other than me that can run right now.
func (r *Run) enabled2(me *Thread) []*Thread {
	var out []*Thread
	for _, t := range r.Sch.threads {
		if t == me || t.done || t.parked || t.quiescing {
			continue
		}
		if t.blocked != nil && !r.evalBlocked(t) {
			continue
		}
		out = append(out, t)
	}
	return out
}

func (r *Run) threadDump() string {
	out := ""
	for _, t := range r.Sch.threads {
		st := "runnable"
		if t.done {
			st = "done"
		} else if t.blocked != nil {
			st = "blocked@" + t.where
		}
		if t.daemon {
			st += ",daemon"
		}
		out += fmt.Sprintf("[%s %s] ", t.name, st)
	}
	return out
}
