package main

import (
	"go/types"

	"golang.org/x/tools/go/ssa"
)

type HostFunc struct {
	F func(r *Run, args []Value) Value
}

func (c *Chan) mayFire() bool {
	return c != nil && c.timer != nil && !c.timer.ticker && !c.timer.fired && !c.timer.stopped && !c.closed
}

func (r *Run) fire(c *Chan) {
	c.timer.fired = true
	if c.onFire != nil {
		c.onFire()
	} else {
		c.buf = append(c.buf, c.zero)
	}
}

func (c *Chan) recvReady() bool { return c != nil && (len(c.buf) > 0 || c.closed) }
func (c *Chan) sendReady() bool {
	if c == nil {
		return false
	}
	if c.closed {
		return true // will panic
	}
	if c.cap == 0 {
		return len(c.buf) == 0 && c.waitingRecv()
	}
	return len(c.buf) < c.cap
}

// unbuffered channels are approximated as capacity-1 whose sender waits until the value is taken.
func (c *Chan) waitingRecv() bool { return true }

func (r *Run) otherEnabled() bool {
	for _, t := range r.enabled() {
		if t != r.Sch.cur {
			return true
		}
	}
	return false
}

func (r *Run) chanHBsend(c *Chan) {
	if r.Sch.active {
		r.releaseVC(&c.id)
	}
}
func (r *Run) chanHBrecv(c *Chan) {
	if r.Sch.active {
		r.acquireVC(&c.id)
	}
}

func (r *Run) chanSend(c *Chan, v Value) {
	r.yield(func() bool { return c != nil && (c.closed || len(c.buf) < max(c.cap, 1)) })
	if c.closed {
		panic(targetPanic{Str("send on closed channel")})
	}
	r.chanHBsend(c)
	c.buf = append(c.buf, v)
	if c.cap == 0 {
		// rendezvous: wait until taken
		r.yield(func() bool { return len(c.buf) == 0 || c.closed })
	} else {
		r.yield(nil)
	}
}

func (r *Run) chanRecv(c *Chan) (Value, bool) {
	for {
		if c.recvReady() {
			break
		}
		if c.mayFire() {
			// the timer fires now, or the goroutine parks until the channel is ready or nobody else can run
			if r.otherEnabled() {
				if r.decide(2, func(i int) *Term { return nil }) == 0 {
					r.fire(c)
					break
				}
				me := r.Sch.cur
				r.yield(func() bool { return c.recvReady() || len(r.enabled2(me)) == 0 })
				continue
			}
			r.fire(c)
			break
		}
		if c != nil && c.timer != nil && c.timer.ticker {
			r.Sch.cur.daemon = true
		}
		r.yield(func() bool { return c.recvReady() })
	}
	if len(c.buf) > 0 {
		v := c.buf[0]
		c.buf = c.buf[1:]
		r.chanHBrecv(c)
		return v, true
	}
	r.chanHBrecv(c)
	return c.zero, false
}

func (r *Run) chanClose(c *Chan) {
	if c == nil {
		panic(targetPanic{Str("close of nil channel")})
	}
	if c.closed {
		panic(targetPanic{Str("close of closed channel")})
	}
	r.chanHBsend(c)
	c.closed = true
	r.yield(nil)
}

func (r *Run) doSelect(fr *Frame, in *ssa.Select) Value {
	type st struct {
		ch   *Chan
		send bool
		val  Value
	}
	states := make([]st, len(in.States))
	nrecv := 0
	for i, s := range in.States {
		ch, _ := fr.get(s.Chan).(*Chan)
		states[i] = st{ch: ch, send: s.Dir == types.SendOnly}
		if states[i].send {
			states[i].val = fr.get(s.Send)
		} else {
			nrecv++
		}
	}
	res := make(Tuple, 2+nrecv)
	res[1] = Bool{}
	k := 2
	recvSlot := make([]int, len(states))
	for i, s := range in.States {
		if !states[i].send {
			recvSlot[i] = k
			res[k] = zero(s.Chan.Type().Underlying().(*types.Chan).Elem())
			k++
		}
	}
	ready := func() (rd []int, tm []int) {
		for i, s := range states {
			if s.send {
				if s.ch != nil && (s.ch.closed || len(s.ch.buf) < max(s.ch.cap, 1)) {
					rd = append(rd, i)
				}
			} else if s.ch.recvReady() {
				rd = append(rd, i)
			} else if s.ch.mayFire() {
				tm = append(tm, i)
			}
		}
		return
	}
	chosen := -1
	for {
		rd, tm := ready()
		if !in.Blocking {
			if len(rd) == 0 {
				break
			}
			chosen = rd[0]
			if len(rd) > 1 {
				chosen = rd[r.decide(len(rd), func(i int) *Term { return nil })]
			}
			break
		}
		opts := append(append([]int{}, rd...), tm...)
		canWait := len(rd) == 0 && len(tm) > 0 && r.otherEnabled()
		if len(opts) > 0 {
			n := len(opts)
			if canWait {
				n++
			}
			c := 0
			if n > 1 {
				c = r.decide(n, func(i int) *Term { return nil })
			}
			if c < len(opts) {
				chosen = opts[c]
				if c >= len(rd) {
					r.fire(states[chosen].ch)
				}
				break
			}
			// park until a real case is ready or nobody else can run (then a timer must fire)
			me := r.Sch.cur
			r.yield(func() bool { a, _ := ready(); return len(a) > 0 || len(r.enabled2(me)) == 0 })
			continue
		}
		// nothing ready: block
		daemon := false
		for _, s := range states {
			if s.ch != nil && s.ch.timer != nil && s.ch.timer.ticker {
				daemon = true
			}
		}
		if daemon {
			r.Sch.cur.daemon = true
		}
		r.yield(func() bool { a, b := ready(); return len(a)+len(b) > 0 })
		r.Sch.cur.daemon = false
	}
	if chosen >= 0 {
		s := states[chosen]
		if s.send {
			if s.ch.closed {
				panic(targetPanic{Str("send on closed channel")})
			}
			r.chanHBsend(s.ch)
			s.ch.buf = append(s.ch.buf, s.val)
		} else {
			if len(s.ch.buf) > 0 {
				res[recvSlot[chosen]] = s.ch.buf[0]
				s.ch.buf = s.ch.buf[1:]
				res[1] = Bool{C: true}
			}
			r.chanHBrecv(s.ch)
		}
	}
	res[0] = Num{W: 64, Signed: true, C: uint64(int64(chosen))}
	if r.Sch.active {
		r.yield(nil)
	}
	return res
}
