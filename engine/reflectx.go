package main

import (
	"go/types"
)

// RVal models reflect.Value for the one call chain kevo uses (ValueOf/MethodByName/Call/IsNil/Interface).
type RVal struct {
	Valid  bool
	V      Value      // the value; for interface-typed results an Iface
	T      types.Type // static type
	Method *Closure   // bound method
	Recv   Value
}

func installReflect(m *Machine) {
	I := m.Intr
	I["reflect.ValueOf"] = func(r *Run, fr *Frame, a []Value) Value {
		i := a[0].(Iface)
		if i.T == nil {
			return RVal{}
		}
		return RVal{Valid: true, V: i.V, T: i.T}
	}
	I["(reflect.Value).IsValid"] = func(r *Run, fr *Frame, a []Value) Value { return Bool{C: a[0].(RVal).Valid} }
	I["(reflect.Value).MethodByName"] = func(r *Run, fr *Frame, a []Value) Value {
		v := a[0].(RVal)
		name := cstr(a[1])
		ms := r.M.Prog.MethodSets.MethodSet(v.T)
		for i := 0; i < ms.Len(); i++ {
			sel := ms.At(i)
			if sel.Obj().Name() == name && sel.Obj().Exported() {
				fn := r.M.Prog.MethodValue(sel)
				return RVal{Valid: true, Method: &Closure{Fn: fn}, Recv: v.V, T: sel.Type()}
			}
		}
		return RVal{}
	}
	I["(reflect.Value).Call"] = func(r *Run, fr *Frame, a []Value) Value {
		v := a[0].(RVal)
		if v.Method == nil {
			panic(targetPanic{Str("reflect: Call of non-method (unsupported)")})
		}
		args := []Value{v.Recv}
		for _, x := range a[1].(Slice).S {
			args = append(args, x.(RVal).V)
		}
		out := r.call(fr, v.Method, args, 0)
		sig := v.Method.Fn.Signature
		var res []Value
		switch sig.Results().Len() {
		case 0:
		case 1:
			res = []Value{RVal{Valid: true, V: out, T: sig.Results().At(0).Type()}}
		default:
			for i, o := range out.(Tuple) {
				res = append(res, RVal{Valid: true, V: o, T: sig.Results().At(i).Type()})
			}
		}
		return Slice{S: res}
	}
	I["(reflect.Value).IsNil"] = func(r *Run, fr *Frame, a []Value) Value {
		switch v := a[0].(RVal).V.(type) {
		case Iface:
			return Bool{C: v.T == nil}
		case Ptr:
			return Bool{C: v == nil}
		case *Map:
			return Bool{C: v == nil}
		case Slice:
			return Bool{C: v.Nil}
		}
		panic(targetPanic{Str("reflect: IsNil on non-nillable")})
	}
	I["(reflect.Value).Interface"] = func(r *Run, fr *Frame, a []Value) Value {
		v := a[0].(RVal)
		if i, ok := v.V.(Iface); ok {
			return i
		}
		return Iface{T: v.T, V: v.V}
	}
}
