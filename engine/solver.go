package main

import (
	"bufio"
	"context"
	"fmt"
	"io"
	"os"
	"os/exec"
	"strconv"
	"strings"
	"time"
)

// Solver is one long-lived SMT solver process spoken to over a pipe (SMT-LIB2 text, no set-logic:
// z3 4.8.12 drops (as const ...) under QF_ABV and still answers).
type Solver struct {
	cmd      *exec.Cmd
	in       io.WriteCloser
	out      *bufio.Reader
	pr       *Printer
	buf      strings.Builder
	Queries  int
	NSat     int
	NUnsat   int
	NUnknown int
	Time     time.Duration
	log      io.Writer
	Bin      string
	retrying bool
	Retries  int
	rec      *Recording // non-nil: the session is recorded for the cross-solver re-check
}

// Recording is the text of one solver session (whole paths only) with the verdict the primary solver gave to
// each check-sat; crossCheck replays it through a second solver.
type Recording struct {
	Text    strings.Builder
	Answers []string
	cur     strings.Builder
	curAns  []string
	Full    bool
	MaxB    int
	MaxQ    int
}

func (rc *Recording) endPath() {
	if rc.Full {
		return
	}
	if rc.Text.Len()+rc.cur.Len() > rc.MaxB || len(rc.Answers)+len(rc.curAns) > rc.MaxQ {
		rc.Full = true
	} else {
		rc.Text.WriteString(rc.cur.String())
		rc.Answers = append(rc.Answers, rc.curAns...)
	}
	rc.cur.Reset()
	rc.curAns = nil
}

var solverBin = "z3"
var solverTimeoutMs = 20000

func solverArgs(bin string) []string {
	switch {
	case strings.Contains(bin, "cvc5"):
		return []string{"--incremental", "--lang=smt2", "--produce-models", fmt.Sprintf("--tlimit-per=%d", solverTimeoutMs)}
	default:
		return []string{"-in", "-smt2", fmt.Sprintf("-t:%d", solverTimeoutMs)}
	}
}

func NewSolver() *Solver { return NewSolverBin(solverBin) }

func NewSolverBin(bin string) *Solver {
	cmd := exec.Command(bin, solverArgs(bin)...)
	in, _ := cmd.StdinPipe()
	outp, _ := cmd.StdoutPipe()
	if err := cmd.Start(); err != nil {
		panic(err)
	}
	s := &Solver{cmd: cmd, in: in, out: bufio.NewReaderSize(outp, 1<<16), Bin: bin}
	s.pr = &Printer{defined: map[int]bool{}, ufs: map[string]bool{}, out: &s.buf}
	s.buf.WriteString("(set-option :produce-models true)\n")
	if strings.Contains(bin, "cvc5") {
		s.buf.WriteString("(set-logic ALL)\n")
	}
	if f := os.Getenv("SMTLOG"); f != "" {
		s.log, _ = os.OpenFile(f, os.O_CREATE|os.O_WRONLY|os.O_APPEND, 0644)
	}
	return s
}

func (s *Solver) Begin() {
	s.buf.WriteString("(push 1)\n")
	s.pr.defined = map[int]bool{}
	s.pr.ufs = map[string]bool{}
}
func (s *Solver) End() {
	s.buf.WriteString("(pop 1)\n")
	if s.rec != nil {
		s.flush()
		s.rec.endPath()
	}
}
func (s *Solver) Assert(t *Term) {
	s.pr.Define(t)
	fmt.Fprintf(&s.buf, "(assert %s)\n", s.pr.ref(t))
}

func (s *Solver) flush() {
	if s.log != nil {
		io.WriteString(s.log, s.buf.String())
	}
	io.WriteString(s.in, s.buf.String())
	if s.rec != nil && !s.rec.Full {
		s.rec.cur.WriteString(s.buf.String())
	}
	s.buf.Reset()
}

// CheckAssuming returns "sat", "unsat" or "unknown"; any (error line is turned into "unknown" (inconclusive).
func (s *Solver) CheckAssuming(t *Term) string {
	s.pr.Define(t)
	fmt.Fprintf(&s.buf, "(check-sat-assuming (%s))\n", s.pr.ref(t))
	t0 := time.Now()
	s.flush()
	line, err := s.out.ReadString('\n')
	s.Queries++
	d := time.Since(t0)
	s.Time += d
	if d > 2*time.Second && os.Getenv("SLOWQ") != "" {
		fmt.Fprintf(os.Stderr, "SLOW query %v (defined terms %d)\n", d, len(s.pr.defined))
	}
	if err != nil {
		panic(pathAbort{"solver died: " + err.Error()})
	}
	line = strings.TrimSpace(line)
	if s.rec != nil && !s.rec.Full {
		s.rec.curAns = append(s.rec.curAns, line)
	}
	switch line {
	case "sat":
		s.NSat++
	case "unsat":
		s.NUnsat++
	default:
		if !strings.HasPrefix(line, "(error") && !s.retrying {
			// a time-out under load is not a verdict: ask once more with six times the budget
			s.retrying = true
			fmt.Fprintf(&s.buf, "(set-option :timeout %d)\n", 6*solverTimeoutMs)
			res := s.CheckAssuming(t)
			fmt.Fprintf(&s.buf, "(set-option :timeout %d)\n", solverTimeoutMs)
			s.retrying = false
			s.Retries++
			return res
		}
		s.NUnknown++
		if strings.HasPrefix(line, "(error") {
			fmt.Fprintln(os.Stderr, "solver error:", line)
			// drain a possibly multi-line error
			for strings.Count(line, "(") > strings.Count(line, ")") {
				l2, err := s.out.ReadString('\n')
				if err != nil {
					break
				}
				line += l2
			}
		}
		line = "unknown"
	}
	return line
}

// readSexp reads one balanced s-expression from the solver.
func (s *Solver) readSexp() string {
	var sb strings.Builder
	depth := 0
	started := false
	for {
		line, err := s.out.ReadString('\n')
		if err != nil {
			panic(pathAbort{"solver died: " + err.Error()})
		}
		sb.WriteString(line)
		inStr := false
		for _, c := range line {
			switch {
			case c == '"':
				inStr = !inStr
			case inStr:
			case c == '(':
				depth++
				started = true
			case c == ')':
				depth--
			}
		}
		if started && depth <= 0 {
			return sb.String()
		}
		if !started && strings.TrimSpace(line) != "" {
			return sb.String()
		}
	}
}

func parseSMTValue(val string) (uint64, bool) {
	val = strings.TrimSpace(val)
	switch {
	case strings.HasPrefix(val, "#x"):
		u, err := strconv.ParseUint(val[2:], 16, 64)
		return u, err == nil
	case strings.HasPrefix(val, "#b"):
		u, err := strconv.ParseUint(val[2:], 2, 64)
		return u, err == nil
	case val == "true":
		return 1, true
	case val == "false":
		return 0, true
	case strings.HasPrefix(val, "(_ bv"):
		f := strings.Fields(val[5:])
		u, err := strconv.ParseUint(f[0], 10, 64)
		return u, err == nil
	}
	return 0, false
}

// Eval checks satisfiability of the current assertions plus assume and, if sat, returns the model's value of
// every term (bit-vector and boolean terms only).
func (s *Solver) Eval(assume *Term, terms []*Term) (map[*Term]uint64, bool) {
	res := map[*Term]uint64{}
	var ask []*Term
	seen := map[*Term]bool{}
	for _, t := range terms {
		if seen[t] {
			continue
		}
		seen[t] = true
		switch t.op {
		case "const":
			res[t] = t.val
			continue
		case "true":
			res[t] = 1
			continue
		case "false":
			res[t] = 0
			continue
		}
		if t.w < 0 {
			continue
		}
		if t.op == "var" && !s.pr.defined[t.id] {
			continue // never constrained: any value will do, the replay reads 0
		}
		ask = append(ask, t)
	}
	// everything asked for is defined before the check: a definition may carry assertions (hash tables), and an
	// assertion after check-sat takes the model away
	for _, t := range ask {
		s.pr.Define(t)
	}
	if r := s.CheckAssuming(assume); r != "sat" {
		return nil, false
	}
	const chunk = 400
	for i := 0; i < len(ask); i += chunk {
		part := ask[i:min(i+chunk, len(ask))]
		s.buf.WriteString("(get-value (")
		for _, t := range part {
			s.buf.WriteString(s.pr.ref(t))
			s.buf.WriteString(" ")
		}
		s.buf.WriteString("))\n")
		s.flush()
		out := s.readSexp()
		vals := splitPairs(out)
		if len(vals) != len(part) {
			fmt.Fprintln(os.Stderr, "get-value: cannot parse", cut(out, 300))
			s.NUnknown++ // a model that cannot be read is not a verdict: reported as inconclusive
			return nil, false
		}
		for k, t := range part {
			u, ok := parseSMTValue(vals[k])
			if !ok {
				fmt.Fprintln(os.Stderr, "get-value: cannot parse value", vals[k])
				s.NUnknown++
				return nil, false
			}
			res[t] = u
		}
	}
	return res, true
}

// splitPairs extracts the value part of each (name value) pair of a get-value answer.
func splitPairs(out string) []string {
	out = strings.TrimSpace(out)
	if len(out) < 2 {
		return nil
	}
	out = out[1 : len(out)-1] // outer parens
	var vals []string
	depth := 0
	start := -1
	for i, c := range out {
		switch c {
		case '(':
			if depth == 0 {
				start = i
			}
			depth++
		case ')':
			depth--
			if depth == 0 && start >= 0 {
				pair := strings.TrimSpace(out[start+1 : i])
				// name is the first token (no spaces in our names), value is the rest
				j := strings.IndexAny(pair, " \n\t")
				if j < 0 {
					vals = append(vals, "")
				} else {
					vals = append(vals, strings.TrimSpace(pair[j+1:]))
				}
				start = -1
			}
		}
	}
	return vals
}

// Values returns the model of vars under the current assertions plus assume (nil if not sat).
func (s *Solver) Values(assume *Term, vars []*Term) map[string]uint64 {
	m, ok := s.Eval(assume, vars)
	if !ok {
		return nil
	}
	res := map[string]uint64{}
	for _, v := range vars {
		if x, ok := m[v]; ok {
			res[v.name] = x
		}
	}
	return res
}

func (s *Solver) Close() { s.in.Close(); s.cmd.Wait() }

// TermValue returns the value of a term in a model of the current assertions plus assume (ok=false if unsat).
func (s *Solver) TermValue(assume, t *Term) (uint64, bool) {
	if r := s.CheckAssuming(assume); r != "sat" {
		if r != "unsat" {
			panic(pathAbort{"solver unknown in enumeration"})
		}
		return 0, false
	}
	s.pr.Define(t)
	fmt.Fprintf(&s.buf, "(get-value (%s))\n", s.pr.ref(t))
	s.flush()
	out := s.readSexp()
	vals := splitPairs(out)
	if len(vals) == 1 {
		if u, ok := parseSMTValue(vals[0]); ok {
			return u, true
		}
	}
	panic(pathAbort{"TermValue: cannot parse " + cut(out, 200)})
}

// CrossResult is the outcome of replaying a recorded session through a second solver.
type CrossResult struct {
	Solver    string  `json:"solver"`
	Queries   int     `json:"queries"`
	Agree     int     `json:"agree"`
	Disagree  int     `json:"disagree"`
	Undecided int     `json:"undecided"` // either side answered unknown / timed out: not comparable
	Errors    int     `json:"errors"`
	Seconds   float64 `json:"seconds"`
	Note      string  `json:"note,omitempty"`
}

// crossCheck replays the recorded session (the exact text the primary solver received) through bin and compares
// the verdict of every check-sat.
func crossCheck(rc *Recording, bin string, budget time.Duration) CrossResult {
	cr := CrossResult{Solver: bin, Queries: len(rc.Answers)}
	if len(rc.Answers) == 0 {
		cr.Note = "nothing recorded"
		return cr
	}
	t0 := time.Now()
	ctx, cancel := context.WithTimeout(context.Background(), budget)
	defer cancel()
	cmd := exec.CommandContext(ctx, bin, solverArgs(bin)...)
	txt := rc.Text.String()
	if strings.Contains(bin, "cvc5") {
		txt = "(set-logic ALL)\n" + txt
	}
	cmd.Stdin = strings.NewReader(txt + "(exit)\n")
	out, _ := cmd.Output()
	cr.Seconds = time.Since(t0).Seconds()
	var got []string
	for _, l := range strings.Split(string(out), "\n") {
		l = strings.TrimSpace(l)
		switch {
		case l == "sat" || l == "unsat" || l == "unknown" || l == "timeout":
			got = append(got, l)
		case strings.HasPrefix(l, "(error"):
			cr.Errors++
		}
	}
	if ctx.Err() != nil {
		cr.Note = fmt.Sprintf("second solver stopped after %v; %d of %d answers compared", budget, len(got), len(rc.Answers))
	}
	if len(got) == 0 {
		cr.Note = "second solver gave no answer (not installed or died)"
		cr.Errors++
	}
	for i, a := range rc.Answers {
		if i >= len(got) {
			break
		}
		b := got[i]
		switch {
		case (a != "sat" && a != "unsat") || (b != "sat" && b != "unsat"):
			cr.Undecided++
		case a == b:
			cr.Agree++
		default:
			cr.Disagree++
		}
	}
	cr.Queries = min(len(got), len(rc.Answers))
	return cr
}
