package main

import (
	"crypto/sha1"
	"encoding/json"
	"fmt"
	"go/types"
	"hash/crc32"
	"os"
	"os/exec"
	"path/filepath"
	"sort"
	"strconv"
	"strings"
	"time"
)

// ---- registry (checks.json) ----

type TierOpts struct {
	Preempt    *int     `json:"preempt,omitempty"`
	MaxZeros   int      `json:"maxzeros,omitempty"`
	BudgetS    float64  `json:"budget_s,omitempty"`
	MaxPaths   int      `json:"maxpaths,omitempty"`
	StepCap    int      `json:"stepcap,omitempty"`
	ConcCap    int      `json:"conccap,omitempty"`
	Background []string `json:"background,omitempty"`
	MapOrders  bool     `json:"map_orders,omitempty"`
	Skip       bool     `json:"skip,omitempty"`
	Bounds     string   `json:"bounds,omitempty"`
}

type Obligation struct {
	Fn          string   `json:"fn"`
	Pkg         string   `json:"pkg"`
	What        string   `json:"what"`
	Quick       TierOpts `json:"quick"`
	Thorough    TierOpts `json:"thorough"`
	Reach       []string `json:"reach"`
	Termination bool     `json:"termination,omitempty"` // an exceeded unwinding bound is a violation candidate (property includes termination)
	NoValidate  bool     `json:"no_validate,omitempty"`
	NoRaces     bool     `json:"no_races,omitempty"`
}

type CheckDef struct {
	Title       string           `json:"title"`
	Obligations []Obligation     `json:"obligations"`
	Assumptions []string         `json:"assumptions"`
	Stubs       []string         `json:"stubs"`
	Outside     []string         `json:"outside"`
	Lemmas      []string         `json:"lemmas"`
	MethodSets  []MethodSetGuard `json:"method_sets"`
}

// MethodSetGuard lists the exported methods of a type (or interface) that the harnesses of a check know about,
// each classified by the harness author. A method of the current tree that is not listed is a new entry point no
// harness covers: the run says so (INCONCLUSIVE), it is never silently "held".
type MethodSetGuard struct {
	Pkg    string   `json:"pkg"`
	Type   string   `json:"type"`
	Known  []string `json:"known"`
	Fields bool     `json:"fields,omitempty"` // compare the struct's field names instead of the method set
}

type KnownFinding struct {
	Property string   `json:"property,omitempty"`
	ID       string   `json:"id,omitempty"`
	Harness  string   `json:"harness,omitempty"`
	Region   string   `json:"region,omitempty"`
	Kind     string   `json:"kind,omitempty"`
	Match    string   `json:"match,omitempty"`     // substring of the violation message (races, deadlocks)
	MatchAll []string `json:"match_all,omitempty"` // every one of these substrings must occur in the message
	What     string   `json:"what,omitempty"`
	Fixed    string   `json:"fixed,omitempty"`
}

func loadKnown(vroot string) []KnownFinding {
	var out []KnownFinding
	b, err := os.ReadFile(filepath.Join(vroot, "KNOWN_FINDINGS.jsonl"))
	if err != nil {
		return nil
	}
	for _, l := range strings.Split(string(b), "\n") {
		l = strings.TrimSpace(l)
		if l == "" || strings.HasPrefix(l, "#") {
			continue
		}
		var k KnownFinding
		if json.Unmarshal([]byte(l), &k) == nil && k.Fixed == "" && k.Property != "" {
			out = append(out, k)
		}
	}
	return out
}

// matchKnown: a violation is a listed finding only if it lies in the listed region of the listed harness
// (or, for schedule-level reports without a data region, matches the listed message fragment).
func matchKnown(known []KnownFinding, prop, fn string, v Violation) *KnownFinding {
	for i := range known {
		k := &known[i]
		if k.Property != prop {
			continue
		}
		if k.Harness != "" && k.Harness != fn {
			continue
		}
		if k.Region != "" {
			if v.Region == k.Region {
				return k
			}
			continue
		}
		if k.Match != "" && v.Region == "" && (k.Kind == "" || k.Kind == v.Kind) && strings.Contains(v.Msg, k.Match) {
			return k
		}
		if len(k.MatchAll) > 0 && v.Region == "" && (k.Kind == "" || k.Kind == v.Kind) {
			all := true
			for _, m := range k.MatchAll {
				if !strings.Contains(v.Msg, m) {
					all = false
				}
			}
			if all {
				return k
			}
		}
	}
	return nil
}

// ---- native confirmation ----

func pkgNameOf(l *Loaded, rel string) string { return l.Pkgs[rel].Pkg.Name() }

// confirm replays a counterexample against the natively compiled code and returns a verdict:
// "CONFIRMED natively", "CONFIRMED (interpreter-schedule)" or "NOT REPRODUCED".
func confirm(l *Loaded, nat *Native, rel, fn string, v Violation, replayFile string, o *Opts) (string, string) {
	hs := l.harnessNames(rel)
	name := pkgNameOf(l, rel)
	attempts := 1
	race := false
	timeout := 60 * time.Second
	if v.Threads {
		attempts = 15
	}
	if v.Kind == "race" {
		race = true
		attempts = 10
		timeout = 120 * time.Second
	}
	for _, c := range v.Choices {
		if strings.HasPrefix(c, "maporder@") && attempts < 12 {
			attempts = 12 // the native run draws its own map iteration order; give it a few draws
		}
	}
	var last nativeOutcome
	for i := 0; i < attempts; i++ {
		out := nat.runNative(rel, name, hs, fn, replayFile, race, timeout)
		last = out
		if out.Err != "" {
			return "NOT REPRODUCED (native build failed)", out.Err
		}
		switch v.Kind {
		case "assert":
			for _, f := range out.Failed {
				if f == v.Msg {
					return "CONFIRMED natively", out.Out
				}
			}
		case "panic":
			if out.Panicked {
				return "CONFIRMED natively", out.Out
			}
		case "deadlock", "hang":
			if out.TimedOut {
				return "CONFIRMED natively", out.Out
			}
		case "race":
			if out.Race {
				return "CONFIRMED natively", out.Out
			}
		}
		if v.Kind == "deadlock" || v.Kind == "hang" {
			break
		}
	}
	if v.Threads && v.Kind != "race" {
		// one specific interleaving: re-execute in the interpreter with the model's values pinned and the same
		// schedule; this confirms the counterexample is a real execution of the current SSA, not a native run
		if replayInterp(l, rel, fn, v, o) {
			return "CONFIRMED (interpreter-schedule)", last.Out
		}
	}
	return "NOT REPRODUCED", last.Out
}

// replayInterp re-runs one decision vector with every input pinned to the model's value.
func replayInterp(l *Loaded, rel, fn string, v Violation, o *Opts) bool {
	f := l.Pkgs[rel].Func(fn)
	if f == nil {
		return false
	}
	s := NewSolver()
	defer s.Close()
	o2 := *o
	r := newRun(l.M, s, v.Decision, &o2)
	r.Pin = v.Vars
	r.PinAll = true
	s.Begin()
	func() {
		defer func() {
			x := recover()
			if f, ok := r.Sch.fatal.(targetPanic); ok {
				x = f
			}
			r.cleanupThreads()
			if tp, ok := x.(targetPanic); ok {
				func() {
					defer func() { recover() }()
					r.panicViolation(fmt.Sprintf("PANIC %v", r.panicText(tp.v)))
				}()
			}
		}()
		r.callFn(nil, f, nil, nil)
	}()
	func() {
		defer func() { recover() }()
		r.raceViolations()
	}()
	s.End()
	for _, w := range r.Viol {
		if o.Trace {
			fmt.Println("  violation on replay:", w.Kind, w.Msg)
		}
		if w.Kind == v.Kind && w.Msg == v.Msg {
			return true
		}
	}
	return false
}

// validateSamples runs sampled terminated paths natively under the solver's model and compares every
// vsym.Observe value with the symbolic prediction (differential validation of the translator).
func validateSamples(l *Loaded, nat *Native, rel, fn string, res *HarnessResult, o *Opts) (agree, disagree, skipped int, msgs []string) {
	hs := l.harnessNames(rel)
	name := pkgNameOf(l, rel)
	dir := nat.tmp()
	n := 0
	for i, smp := range res.Samples {
		if n >= o.Validate {
			break
		}
		if smp.Threads || smp.Crashed {
			skipped++
			continue
		}
		n++
		rf := filepath.Join(dir, fmt.Sprintf("val_%s_%d.json", fn, i))
		b, _ := json.Marshal(map[string]interface{}{"harness": fn, "vars": smp.Vars, "ints": smp.Ints, "thorough": o.Thorough})
		os.WriteFile(rf, b, 0644)
		out := nat.runNative(rel, name, hs, fn, rf, false, 60*time.Second)
		if out.Err != "" {
			msgs = append(msgs, out.Err)
			skipped++
			continue
		}
		ok := len(out.Failed) == 0 && !out.Panicked && !out.TimedOut && !out.Skipped
		if ok && strings.Join(out.Observed, "\n") != strings.Join(smp.Observed, "\n") {
			ok = false
		}
		if ok {
			agree++
		} else {
			disagree++
			msgs = append(msgs, fmt.Sprintf("path %v vars=%v: symbolic observed %v, native observed %v failed=%v panicked=%v timeout=%v skipped=%v",
				smp.Choices, smp.Vars, smp.Observed, out.Observed, out.Failed, out.Panicked, out.TimedOut, out.Skipped))
		}
	}
	return
}

// ---- the check command ----

func cmdCheck(args []string) int {
	if len(args) < 2 {
		fmt.Fprintln(os.Stderr, "usage: gosym check <Cxx> quick|thorough [-only Fn]")
		return 2
	}
	prop, tier := args[0], args[1]
	only := ""
	for i := 2; i+1 < len(args); i++ {
		if args[i] == "-only" {
			only = args[i+1]
		}
	}
	if t := os.Getenv("VERIF_TIER"); t == "quick" || t == "thorough" {
		// the registered command names its tier explicitly; VERIF_TIER is informational
		_ = t
	}
	seed := int64(0)
	if s := os.Getenv("VERIF_SEED"); s != "" {
		seed, _ = strconv.ParseInt(s, 10, 64)
	}
	vroot := verifRoot()
	root := repoRoot()
	t0 := time.Now()
	var defs map[string]CheckDef
	if err := json.Unmarshal(rd(filepath.Join(vroot, "checks.json")), &defs); err != nil {
		fmt.Fprintln(os.Stderr, "checks.json:", err)
		return 2
	}
	def, ok := defs[prop]
	if !ok {
		fmt.Fprintln(os.Stderr, "no check registered for", prop)
		return 2
	}
	known := loadKnown(vroot)
	thorough := tier == "thorough"
	pkgSet := map[string]bool{}
	for _, ob := range def.Obligations {
		pkgSet[ob.Pkg] = true
	}
	var rels []string
	for p := range pkgSet {
		rels = append(rels, p)
	}
	sort.Strings(rels)

	ev := &Evidence{PropertyID: prop, Tier: tier, Seed: seed, Level: "model_checking"}
	ev.Coverage.FunctionsEncoded = map[string]int{}
	ev.Coverage.Stubs = map[string]int{}
	ev.Assumptions = append(ev.Assumptions, def.Assumptions...)
	ev.Coverage.Outside = def.Outside
	ev.Coverage.Solver = solverBin + " (SMT-LIB2 over a pipe, incremental push/pop)"
	evPath := filepath.Join(outRoot(vroot), "evidence", prop+".json")
	finish := func(code int) int {
		ev.WallS = time.Since(t0).Seconds()
		ev.write(evPath)
		return code
	}

	l, err := load(root, vroot, rels)
	if err != nil {
		fmt.Printf("INCONCLUSIVE: property=%s the tree could not be loaded with the harness overlay: %v\n", prop, err)
		ev.Coverage.Inconclusive = append(ev.Coverage.Inconclusive, "load: "+err.Error())
		ev.Coverage.fillMinimal()
		return finish(inconclusiveCode())
	}
	ev.Coverage.LoadS = l.LoadS
	nat := &Native{Root: l.Root, VsymSrc: l.VsymSrc, HFiles: l.HFiles, Extra: l.Extra}
	defer nat.Cleanup()

	exit := 0
	inconclusive := false
	nviol := 0
	printedKF := map[string]bool{}
	for _, g := range def.MethodSets {
		missing, gone := methodSetDiff(l, g)
		ev.Coverage.MethodSets = append(ev.Coverage.MethodSets, map[string]interface{}{"type": g.Pkg + "." + g.Type, "known": len(g.Known), "not_covered": missing, "no_longer_present": gone})
		for _, m := range missing {
			msg := fmt.Sprintf("%s.%s has an exported method %s that no harness of this check knows about (new entry point: not covered)", g.Pkg, g.Type, m)
			if g.Fields {
				msg = fmt.Sprintf("%s.%s has an exported field %s that no harness of this check knows about (not covered)", g.Pkg, g.Type, m)
			}
			fmt.Printf("INCONCLUSIVE: property=%s %s\n", prop, msg)
			ev.Coverage.Inconclusive = append(ev.Coverage.Inconclusive, msg)
			inconclusive = true
		}
	}
	for _, lm := range def.Lemmas {
		le := runLemma(vroot, lm)
		ev.Coverage.Lemmas = append(ev.Coverage.Lemmas, le)
		if !le.OK {
			fmt.Printf("INCONCLUSIVE: property=%s lemma %s is not discharged (%s): the checksum axioms it justifies are not trusted\n", prop, lm, le.Detail)
			ev.Coverage.Inconclusive = append(ev.Coverage.Inconclusive, "lemma "+lm+": "+le.Detail)
			inconclusive = true
		}
	}
	replayDir := filepath.Join(outRoot(vroot), "replays", prop)
	for _, ob := range def.Obligations {
		if only != "" && ob.Fn != only {
			continue
		}
		to := ob.Quick
		if thorough {
			to = mergeTier(ob.Quick, ob.Thorough)
		}
		if to.Skip {
			continue
		}
		pkg := l.Pkgs[ob.Pkg]
		if pkg == nil || pkg.Func(ob.Fn) == nil {
			fmt.Printf("INCONCLUSIVE: property=%s harness %s not found in %s\n", prop, ob.Fn, ob.Pkg)
			ev.Coverage.Inconclusive = append(ev.Coverage.Inconclusive, "missing harness "+ob.Fn)
			inconclusive = true
			continue
		}
		o := &Opts{Workers: 16, Preempt: -1, MaxZeros: to.MaxZeros, Thorough: thorough, MaxPaths: to.MaxPaths, BudgetS: to.BudgetS, StepCap: to.StepCap, ConcCap: to.ConcCap, Samples: 3, Validate: 3, Seed: seed}
		// one worker's whole session is replayed through a second solver and the verdicts compared
		o.Cross, o.CrossMaxQ, o.CrossS = []string{"z3-new"}, 150, 60
		if thorough {
			o.Validate = 10
			o.Cross, o.CrossMaxQ, o.CrossS = []string{"z3-new", "cvc5"}, 400, 120
		}
		if os.Getenv("VERIF_NOCROSS") != "" {
			o.Cross = nil
		}
		if ob.NoValidate {
			o.Validate = 0
		}
		o.NoRaces = ob.NoRaces
		o.MapOrders = to.MapOrders
		if to.Preempt != nil {
			o.Preempt = *to.Preempt
		}
		if len(to.Background) > 0 {
			o.Background = map[string]bool{}
			for _, b := range to.Background {
				o.Background[b] = true
			}
		}
		if o.BudgetS == 0 {
			o.BudgetS = 600
			if thorough {
				o.BudgetS = 600
			}
		}
		res := explore(l.M, pkg.Func(ob.Fn), o)
		oe := ObligationEvidence{Harness: ob.Fn, Pkg: ob.Pkg, What: ob.What, Bounds: to.Bounds, Paths: res.Paths, Decisions: res.Decisions, Queries: res.Queries,
			QSat: res.QSat, QUnsat: res.QUnsat, QUnknown: res.QUnknown, SolverS: round3(res.SolverS), WallS: round3(res.WallS), Steps: res.Steps, Asserts: res.Asserts,
			Aborted: res.Aborted, Exhausted: res.Exhausted, Remaining: res.Remaining, Functions: len(res.FnCount), Schedules: res.Schedules,
			PreemptionBound: o.Preempt, TowerHeightBound: o.MaxZeros + 1, StepCap: o.StepCap, CRCAxiomInstances: res.Axioms, DistinctPrograms: len(res.Distinct)}
		for _, k := range sortedBoolKeys(res.Reached) {
			oe.Reached = append(oe.Reached, k)
		}
		// unwinding / inconclusive paths
		for why, n := range res.Aborted {
			switch {
			case strings.HasPrefix(why, "unwind"), strings.HasPrefix(why, "concretization cap"):
				oe.UnwindExceeded += n
			case strings.HasPrefix(why, "solver unknown"), strings.HasPrefix(why, "unknown at assert"), strings.HasPrefix(why, "solver died"):
				oe.SolverInconclusive += n
			}
		}
		if oe.UnwindExceeded > 0 {
			msg := fmt.Sprintf("%s: %d paths exceeded an unwinding bound (not counted as success)", ob.Fn, oe.UnwindExceeded)
			if ob.Termination {
				// the property includes termination: candidate hang, confirmed natively below
				res.Viol = append(res.Viol, hangCandidates(res)...)
			}
			fmt.Printf("INCONCLUSIVE: property=%s %s\n", prop, msg)
			ev.Coverage.Inconclusive = append(ev.Coverage.Inconclusive, msg)
			inconclusive = true
		}
		if oe.SolverInconclusive > 0 {
			msg := fmt.Sprintf("%s: solver returned unknown on %d paths (not counted as success)", ob.Fn, oe.SolverInconclusive)
			fmt.Printf("INCONCLUSIVE: property=%s %s\n", prop, msg)
			ev.Coverage.Inconclusive = append(ev.Coverage.Inconclusive, msg)
			inconclusive = true
		}
		for _, e := range res.EngineErrors {
			fmt.Printf("INCONCLUSIVE: property=%s %s: %s\n", prop, ob.Fn, e)
			ev.Coverage.Inconclusive = append(ev.Coverage.Inconclusive, ob.Fn+": "+cut(e, 500))
			inconclusive = true
		}
		if !res.Exhausted && len(res.EngineErrors) == 0 {
			msg := fmt.Sprintf("%s: budget reached after %d paths, %d path prefixes left unexplored (bound reduced, not exhaustive)", ob.Fn, res.Paths, res.Remaining)
			fmt.Printf("NOTE: property=%s %s\n", prop, msg)
			ev.Coverage.Inconclusive = append(ev.Coverage.Inconclusive, msg)
		}
		// vacuity
		for _, lab := range ob.Reach {
			if !res.Reached[lab] {
				msg := fmt.Sprintf("%s: reach label %q was not reached on any feasible path (vacuous)", ob.Fn, lab)
				fmt.Printf("INCONCLUSIVE: property=%s %s\n", prop, msg)
				ev.Coverage.Inconclusive = append(ev.Coverage.Inconclusive, msg)
				inconclusive = true
			}
		}
		// violations: group, replay natively, classify
		groups := groupViolations(res.Viol)
		replayed := 0
		for _, g := range groups {
			v := g.best
			h := sha1.Sum([]byte(ob.Fn + "|" + g.key))
			rf := filepath.Join(replayDir, fmt.Sprintf("%s_%x.json", ob.Fn, h[:5]))
			kf := matchKnown(known, prop, ob.Fn, v)
			if replayed >= 12 && kf == nil {
				// many distinct messages: the first dozen are enough to report; the rest are listed in the evidence
				oe.Unreplayed++
				continue
			}
			replayed++
			writeReplay(rf, prop, ob.Pkg, ob.Fn, v, o)
			verdict, detail := confirm(l, nat, ob.Pkg, ob.Fn, v, rf, o)
			rec := ViolationEvidence{Harness: ob.Fn, Kind: v.Kind, Msg: cut(v.Msg, 400), Region: v.Region, Paths: g.n, Replay: rf, Verdict: verdict, Choices: v.Choices, Vars: v.Vars}
			switch {
			case !strings.HasPrefix(verdict, "CONFIRMED") && kf != nil:
				// a recorded finding (confirmed when it was recorded) met again symbolically; this run's native replay -
				// a timing-dependent race report, typically - did not show it
				if !printedKF[kf.ID] {
					printedKF[kf.ID] = true
					fmt.Printf("KNOWN-FINDING: property=%s %s (%s; harness %s region %q; %d paths; native replay did not reproduce it in this run; replay=%s)\n", prop, kf.What, kf.ID, ob.Fn, v.Region, g.n, rf)
				}
				rec.Class = "known-finding " + kf.ID + " (not reproduced natively in this run)"
				ev.Coverage.KnownFindings = append(ev.Coverage.KnownFindings, kf.ID)
			case !strings.HasPrefix(verdict, "CONFIRMED"):
				fmt.Printf("INCONCLUSIVE: property=%s %s: counterexample did not reproduce natively (%s): %s [%s]\n", prop, ob.Fn, verdict, cut(v.Msg, 200), rf)
				if os.Getenv("VERIF_DEBUG") != "" {
					fmt.Println(indent(cut(detail, 3000)))
				}
				rec.Class = "not-reproduced"
				inconclusive = true
			case kf != nil:
				if !printedKF[kf.ID] {
					printedKF[kf.ID] = true
					fmt.Printf("KNOWN-FINDING: property=%s %s (%s; harness %s region %q; %d paths; replay=%s)\n", prop, kf.What, kf.ID, ob.Fn, v.Region, g.n, rf)
				}
				rec.Class = "known-finding " + kf.ID
				ev.Coverage.KnownFindings = append(ev.Coverage.KnownFindings, kf.ID)
			default:
				fmt.Printf("VIOLATION property=%s replay=%s\n", prop, rf)
				fmt.Printf("  harness=%s kind=%s region=%q paths=%d verdict=%s\n  %s\n  choices=%v\n  vars=%v\n", ob.Fn, v.Kind, v.Region, g.n, verdict, cut(v.Msg, 400), v.Choices, v.Vars)
				rec.Class = "violation"
				exit = 1
				nviol++
			}
			ev.Coverage.ViolationsDetail = append(ev.Coverage.ViolationsDetail, rec)
		}
		// differential validation
		if o.Validate > 0 {
			a, d, sk, msgs := validateSamples(l, nat, ob.Pkg, ob.Fn, res, o)
			oe.Validated = a
			oe.ValidationSkipped = sk
			ev.Coverage.TracesValidated += a
			if d > 0 {
				for _, m := range msgs {
					fmt.Printf("INCONCLUSIVE: property=%s %s: translator validation mismatch: %s\n", prop, ob.Fn, cut(m, 600))
					ev.Coverage.Inconclusive = append(ev.Coverage.Inconclusive, "validation mismatch: "+cut(m, 600))
				}
				inconclusive = true
			}
		}
		oe.Cross = res.Cross
		for _, c := range res.Cross {
			if c.Disagree > 0 || c.Errors > 0 {
				msg := fmt.Sprintf("%s: second solver %s disagrees with the primary solver on %d of %d replayed queries (%d error lines)", ob.Fn, c.Solver, c.Disagree, c.Queries, c.Errors)
				fmt.Printf("INCONCLUSIVE: property=%s %s\n", prop, msg)
				ev.Coverage.Inconclusive = append(ev.Coverage.Inconclusive, msg)
				inconclusive = true
			}
		}
		for i, smp := range res.Samples {
			if i >= o.Samples {
				break
			}
			ev.Coverage.Samples = append(ev.Coverage.Samples, map[string]interface{}{"harness": ob.Fn, "choices": smp.Choices, "model": smp.Vars, "observed": smp.Observed})
		}
		for k, n := range res.FnCount {
			ev.Coverage.FunctionsEncoded[k] += n
		}
		for k, n := range res.Stubs {
			ev.Coverage.Stubs[k] += n
		}
		ev.Coverage.States += res.Paths
		ev.Coverage.Transitions += res.Decisions
		ev.Coverage.Queries += res.Queries
		ev.Coverage.QueriesUnsat += res.QUnsat
		ev.Coverage.QueriesSat += res.QSat
		ev.Coverage.QueriesUnknown += res.QUnknown
		ev.Coverage.SolverS += res.SolverS
		ev.Coverage.UnwindExceeded += oe.UnwindExceeded
		ev.Coverage.Obligations = append(ev.Coverage.Obligations, oe)
		fmt.Printf("  %-44s paths=%-7d queries=%-8d unsat=%-7d sat=%-7d solver=%.1fs wall=%.1fs fns=%d violations(groups)=%d validated=%d exhausted=%v\n",
			ob.Fn, res.Paths, res.Queries, res.QUnsat, res.QSat, res.SolverS, res.WallS, len(res.FnCount), len(groups), oe.Validated, res.Exhausted)
	}
	ev.Violations = nviol
	ev.Coverage.NativeBuildS = round3(nat.BuildS)
	ev.Coverage.SolverS = round3(ev.Coverage.SolverS)
	ev.Coverage.Exhaustive = !inconclusive && exit == 0 && len(ev.Coverage.Inconclusive) == 0
	ev.Coverage.fillMinimal()
	if exit == 0 && inconclusive {
		return finish(inconclusiveCode())
	}
	return finish(exit)
}

// inconclusiveCode: an engine limitation is neither "held" nor a violation. The interface knows only the two;
// the run prints INCONCLUSIVE lines and records them in the evidence. VERIF_STRICT=1 (used while developing)
// turns them into exit 2.
func inconclusiveCode() int {
	if os.Getenv("VERIF_STRICT") != "" {
		return 2
	}
	return 0
}

func mergeTier(q, t TierOpts) TierOpts {
	out := q
	if t.Preempt != nil {
		out.Preempt = t.Preempt
	}
	if t.MaxZeros != 0 {
		out.MaxZeros = t.MaxZeros
	}
	if t.BudgetS != 0 {
		out.BudgetS = t.BudgetS
	} else {
		out.BudgetS = 0
	}
	if t.MaxPaths != 0 {
		out.MaxPaths = t.MaxPaths
	}
	if t.StepCap != 0 {
		out.StepCap = t.StepCap
	}
	if t.ConcCap != 0 {
		out.ConcCap = t.ConcCap
	}
	if len(t.Background) > 0 {
		out.Background = t.Background
	}
	if t.MapOrders {
		out.MapOrders = true
	}
	if t.Bounds != "" {
		out.Bounds = t.Bounds
	}
	out.Skip = t.Skip
	return out
}

// hangCandidates turns paths that ran out of steps into "hang" counterexample candidates (confirmed only by a
// native timeout).
func hangCandidates(res *HarnessResult) []Violation {
	var out []Violation
	for _, h := range res.Hangs {
		out = append(out, h)
	}
	return out
}

func sortedBoolKeys(m map[string]bool) []string {
	var ks []string
	for k := range m {
		ks = append(ks, k)
	}
	sort.Strings(ks)
	return ks
}

func round3(f float64) float64 { return float64(int64(f*1000+0.5)) / 1000 }

// cmdReplay re-runs a stored counterexample natively: gosym replay <file>
func cmdReplay(args []string) int {
	if len(args) < 1 {
		fmt.Fprintln(os.Stderr, "usage: gosym replay <replay.json>")
		return 2
	}
	var rp struct {
		Pkg, Harness, Kind, Msg, Region string
		Vars                            map[string]uint64
		Ints                            []int
		Decision                        []int
		Thorough, Threads               bool
		Preempt, Maxzeros               int
		Crash                           map[string]string
		Crash_kind                      int
		Outs                            []int64
	}
	if err := json.Unmarshal(rd(args[0]), &rp); err != nil {
		fmt.Fprintln(os.Stderr, err)
		return 2
	}
	l, err := load(repoRoot(), verifRoot(), []string{rp.Pkg})
	if err != nil {
		fmt.Println("LOAD ERROR:", err)
		return 2
	}
	nat := &Native{Root: l.Root, VsymSrc: l.VsymSrc, HFiles: l.HFiles, Extra: l.Extra}
	defer nat.Cleanup()
	v := Violation{Msg: rp.Msg, Kind: rp.Kind, Vars: rp.Vars, Ints: rp.Ints, Decision: rp.Decision, Threads: rp.Threads, Region: rp.Region, Crash: rp.Crash, Outs: rp.Outs}
	o := &Opts{Workers: 1, Preempt: rp.Preempt, MaxZeros: rp.Maxzeros, Thorough: rp.Thorough}
	verdict, detail := confirm(l, nat, rp.Pkg, rp.Harness, v, args[0], o)
	fmt.Printf("replay %s: harness=%s kind=%s msg=%q: %s\n", args[0], rp.Harness, rp.Kind, rp.Msg, verdict)
	fmt.Println(indent(cut(detail, 4000)))
	if strings.HasPrefix(verdict, "CONFIRMED") {
		return 1
	}
	return 0
}

// runLemma discharges a stand-alone SMT-LIB lemma file (every check-sat must answer unsat) and, for the CRC-32
// lemmas, checks that the table Go uses equals the bitwise definition the lemma file talks about (L3).
func runLemma(vroot, name string) LemmaEvidence {
	le := LemmaEvidence{File: "lemmas/" + name + ".smt2"}
	t0 := time.Now()
	out, err := exec.Command(solverBin, "-T:60", filepath.Join(vroot, "lemmas", name+".smt2")).CombinedOutput()
	le.SolverS = round3(time.Since(t0).Seconds())
	le.Answers = strings.Fields(strings.TrimSpace(string(out)))
	le.OK = err == nil && len(le.Answers) > 0
	for _, a := range le.Answers {
		if a != "unsat" {
			le.OK = false
		}
	}
	if !le.OK {
		le.Detail = cut(strings.TrimSpace(string(out)), 200)
	}
	if strings.HasPrefix(name, "crc32") {
		for i := 0; i < 256; i++ {
			x := uint32(i)
			for k := 0; k < 8; k++ {
				if x&1 == 1 {
					x = (x >> 1) ^ 0xEDB88320
				} else {
					x >>= 1
				}
			}
			if crc32.IEEETable[i] != x {
				le.OK, le.Detail = false, fmt.Sprintf("hash/crc32 table entry %d differs from the bitwise definition", i)
			}
		}
		le.TableChecked = true
	}
	return le
}

// methodSetDiff compares the exported method set of a named type of the loaded tree with the guard's list.
func methodSetDiff(l *Loaded, g MethodSetGuard) (missing, gone []string) {
	var obj types.Object
	for _, p := range l.Prog.AllPackages() {
		if p.Pkg.Path() == "github.com/KevoDB/kevo/"+g.Pkg {
			obj = p.Pkg.Scope().Lookup(g.Type)
		}
	}
	if obj == nil {
		return []string{"(type " + g.Type + " not found)"}, nil
	}
	known := map[string]bool{}
	for _, k := range g.Known {
		known[k] = true
	}
	have := map[string]bool{}
	t := obj.Type()
	if g.Fields {
		st, ok := t.Underlying().(*types.Struct)
		if !ok {
			return []string{"(type " + g.Type + " is not a struct)"}, nil
		}
		for i := 0; i < st.NumFields(); i++ {
			f := st.Field(i)
			if !f.Exported() {
				continue
			}
			have[f.Name()] = true
			if !known[f.Name()] {
				missing = append(missing, f.Name())
			}
		}
		for k := range known {
			if !have[k] {
				gone = append(gone, k)
			}
		}
		sort.Strings(missing)
		sort.Strings(gone)
		return
	}
	var ms *types.MethodSet
	if _, isIface := t.Underlying().(*types.Interface); isIface {
		ms = types.NewMethodSet(t)
	} else {
		ms = types.NewMethodSet(types.NewPointer(t))
	}
	for i := 0; i < ms.Len(); i++ {
		m := ms.At(i).Obj()
		if !m.Exported() {
			continue
		}
		have[m.Name()] = true
		if !known[m.Name()] {
			missing = append(missing, m.Name())
		}
	}
	for k := range known {
		if !have[k] {
			gone = append(gone, k)
		}
	}
	sort.Strings(missing)
	sort.Strings(gone)
	return
}

// outRoot is where evidence and replay files go: /verif itself when the check runs against /repo (the registered
// use), a scratch directory when a dev sweep points the check at another tree with VERIF_REPO (so that a run
// against a seeded change never rewrites the evidence of the real tree).
func outRoot(vroot string) string {
	if v := os.Getenv("VERIF_OUT"); v != "" {
		os.MkdirAll(filepath.Join(v, "evidence"), 0755)
		return v
	}
	if v := os.Getenv("VERIF_REPO"); v != "" && filepath.Clean(v) != "/repo" {
		d := filepath.Join("/var/tmp/verif-scratch-out", strings.Replace(filepath.Clean(v), "/", "_", -1))
		os.MkdirAll(filepath.Join(d, "evidence"), 0755)
		return d
	}
	return vroot
}
