package main

import (
	"fmt"
	"os"
	"sort"
	"strings"
	"sync"
	"sync/atomic"
	"time"

	"golang.org/x/tools/go/ssa"
)

// Opts are the bounds and switches of one harness run; all of them are reported in the evidence.
type Opts struct {
	Workers    int
	Preempt    int  // preemption bound; -1 = goroutines of the target are not started (Tier A)
	MaxZeros   int  // skiplist tower height bound minus one
	Thorough   bool // harnesses read this through vsym.Thorough()
	MaxPaths   int
	BudgetS    float64 // wall-clock budget for exploration (0 = none)
	StepCap    int     // per-path instruction budget (unwinding bound)
	Validate   int     // terminated paths sampled for native differential validation
	Samples    int     // sample paths written to the evidence
	Verbose    bool
	Seed       int64
	Trace      bool
	ConcCap    int
	NoRaces    bool            // the harness' property does not include race freedom and its fakes cannot reproduce the timing natively
	Background map[string]bool // ticker-driven background loops of kevo that are started as (daemon) threads
	Cross      []string        // second solvers through which the recorded session of one worker is replayed
	CrossMaxQ  int             // queries recorded for that
	CrossS     float64         // time allowed to each second solver
	MapOrders  bool            // the order in which kevo's code walks a small map is a choice point
}

// Sample is one terminated path written out for the evidence / for native validation.
type Sample struct {
	Choices  []string          `json:"choices"`
	Ints     []int             `json:"ints"`
	Vars     map[string]uint64 `json:"vars,omitempty"`
	Observed []string          `json:"observed,omitempty"`
	Decision []int             `json:"-"`
	Threads  bool              `json:"-"`
	Crashed  bool              `json:"-"`
}

type HarnessResult struct {
	Fn, Pkg      string
	Paths        int
	Steps        int
	Asserts      int
	Queries      int
	QSat         int
	QUnsat       int
	QUnknown     int
	Decisions    int
	SolverS      float64
	WallS        float64
	Aborted      map[string]int
	Reached      map[string]bool
	FnCount      map[string]int
	Viol         []Violation
	Exhausted    bool
	Remaining    int
	Samples      []Sample
	EngineErrors []string
	Schedules    int // paths on which more than one thread existed
	MaxSwitches  int
	Axioms       int
	Stubs        map[string]int
	Distinct     map[string]bool
	Hangs        []Violation
	Cross        []CrossResult
}

func newRun(m *Machine, s *Solver, prefix []int, o *Opts) *Run {
	r := &Run{M: m, S: s, TT: NewTermTable(), Prefix: prefix, Globals: map[*ssa.Global]*Value{}, Reached: map[string]bool{}, vsymN: map[string]int{},
		Inited: map[*ssa.Package]bool{}, FS: NewSimFS(), Clock: 1700000000000000000, Locks: map[*Value]int{}, FnCount: map[string]int{}}
	r.MaxZeros = o.MaxZeros
	r.Sch = NewSched(o.Preempt)
	r.SpawnOK = true
	r.Opts = o
	r.Regions = map[string]*Term{}
	if o.StepCap > 0 {
		r.StepCap = o.StepCap
	} else {
		r.StepCap = 5_000_000
	}
	return r
}

// explore runs one harness over all feasible paths within the bounds.
func explore(m *Machine, fn *ssa.Function, o *Opts) *HarnessResult {
	res := &HarnessResult{Fn: fn.Name(), Pkg: fn.Pkg.Pkg.Path(), Aborted: map[string]int{}, Reached: map[string]bool{}, FnCount: map[string]int{}, Stubs: map[string]int{}, Distinct: map[string]bool{}}
	var mu sync.Mutex
	cond := sync.NewCond(&mu)
	work := [][]int{{}}
	busy := 0
	stop := false
	t1 := time.Now()
	var wg sync.WaitGroup
	nw := o.Workers
	if nw <= 0 {
		nw = 16
	}
	sampleEvery := 1
	var rec *Recording
	var recClaimed int32
	if len(o.Cross) > 0 {
		rec = &Recording{MaxB: 48 << 20, MaxQ: o.CrossMaxQ}
	}
	for w := 0; w < nw; w++ {
		wg.Add(1)
		go func() {
			defer wg.Done()
			s := NewSolver()
			defer s.Close()
			for {
				mu.Lock()
				for len(work) == 0 && busy > 0 && !stop {
					cond.Wait()
				}
				if len(work) == 0 || stop {
					mu.Unlock()
					cond.Broadcast()
					return
				}
				p := work[len(work)-1]
				work = work[:len(work)-1]
				busy++
				mu.Unlock()
				if rec != nil && atomic.CompareAndSwapInt32(&recClaimed, 0, 1) {
					s.rec = rec // the worker that takes the first path has not talked to its solver yet
				}
				r := newRun(m, s, p, o)
				if o.BudgetS > 0 {
					r.Deadline = t1.Add(time.Duration((o.BudgetS + 20) * float64(time.Second)))
				}
				q0, st0 := s.Queries, s.Time
				sat0, unsat0, unk0 := s.NSat, s.NUnsat, s.NUnknown
				s.Begin()
				var ab string
				var engErr string
				func() {
					defer func() {
						x := recover()
						if f, ok := r.Sch.fatal.(targetPanic); ok {
							x = f
						} else if f, ok := r.Sch.fatal.(enginePanic); ok {
							x = f
						}
						r.cleanupThreads()
						if x != nil {
							switch x := x.(type) {
							case pathAbort:
								ab = x.why
								if strings.HasPrefix(ab, "unwind") {
									func() {
										defer func() { recover() }()
										if v, ok := r.modelViolation("hang", "does not terminate within the step bound: "+ab, r.TT.True()); ok {
											r.hang = &v
										}
									}()
								}
							case targetPanic:
								func() {
									defer func() {
										if y := recover(); y != nil {
											ab = fmt.Sprint("abort while recording panic: ", y)
										}
									}()
									r.panicViolation(fmt.Sprintf("PANIC %v", r.panicText(x.v)))
								}()
							case enginePanic:
								var sb strings.Builder
								fmt.Fprintf(&sb, "engine panic in %s: %v", x.fn, x.x)
								for _, l := range strings.Split(x.stack, "\n") {
									if strings.Contains(l, "/engine/") && !strings.Contains(l, "interp.go:3") {
										sb.WriteString("\n    " + strings.TrimSpace(l))
									}
								}
								engErr = sb.String()
							case crashSignal:
								ab = "crash outside CrashRegion"
							default:
								engErr = fmt.Sprintf("engine panic (host): %v", x)
							}
						}
					}()
					r.callFn(nil, fn, nil, nil)
				}()
				if engErr == "" {
					func() {
						defer func() {
							if y := recover(); y != nil {
								ab = fmt.Sprint("abort while recording races: ", y)
							}
						}()
						if !o.NoRaces {
							r.raceViolations()
						}
					}()
				}
				// sample terminated, non-violating paths for the evidence and for native validation
				var smp *Sample
				mu.Lock()
				want := ab == "" && engErr == "" && len(r.Viol) == 0 && (len(res.Samples) < o.Samples+o.Validate) && (res.Paths%sampleEvery == 0)
				mu.Unlock()
				if want {
					func() {
						defer func() { recover() }()
						smp = r.sample()
					}()
				}
				s.End()
				mu.Lock()
				busy--
				res.Paths++
				if o.Verbose && res.Paths%2000 == 0 {
					fmt.Fprintf(os.Stderr, "  ... %s paths=%d work=%d choices=%v\n", fn.Name(), res.Paths, len(work), cut(fmt.Sprint(r.Choices), 200))
				}
				if smp != nil && len(res.Samples) < o.Samples+o.Validate {
					res.Samples = append(res.Samples, *smp)
					if len(res.Samples) >= 4 {
						sampleEvery = 1 + res.Paths/4 // spread later samples over the exploration
					}
				}
				if ab != "" {
					res.Aborted[ab]++
				}
				if r.hang != nil && len(res.Hangs) < 3 {
					res.Hangs = append(res.Hangs, *r.hang)
				}
				if engErr != "" {
					if len(res.EngineErrors) < 5 {
						res.EngineErrors = append(res.EngineErrors, engErr+fmt.Sprintf("\n    on path %v", cut(fmt.Sprint(r.Choices), 300)))
					}
					if len(res.EngineErrors) >= 5 {
						stop = true
					}
				}
				res.Steps += r.Steps
				res.Asserts += r.Asserts
				res.Queries += s.Queries - q0
				res.QSat += s.NSat - sat0
				res.QUnsat += s.NUnsat - unsat0
				res.QUnknown += s.NUnknown - unk0
				res.SolverS += (s.Time - st0).Seconds()
				res.Decisions += len(r.Trace)
				res.Axioms += r.Axioms
				if r.Sch.active {
					res.Schedules++
					if r.Sch.switches > res.MaxSwitches {
						res.MaxSwitches = r.Sch.switches
					}
				}
				res.Viol = append(res.Viol, r.Viol...)
				res.Distinct[strings.Join(r.Choices, " ")] = true
				work = append(work, r.Alts...)
				for k := range r.Reached {
					res.Reached[k] = true
				}
				for k, v := range r.FnCount {
					res.FnCount[k] += v
				}
				for k, v := range r.StubCount {
					res.Stubs[k] += v
				}
				if o.MaxPaths > 0 && res.Paths >= o.MaxPaths {
					stop = true
				}
				if o.BudgetS > 0 && time.Since(t1).Seconds() > o.BudgetS {
					stop = true
				}
				mu.Unlock()
				cond.Broadcast()
			}
		}()
	}
	wg.Wait()
	res.WallS = time.Since(t1).Seconds()
	if rec != nil {
		crs := make([]CrossResult, len(o.Cross))
		var cw sync.WaitGroup
		for i, bin := range o.Cross {
			cw.Add(1)
			go func() {
				defer cw.Done()
				crs[i] = crossCheck(rec, bin, time.Duration(o.CrossS*float64(time.Second)))
			}()
		}
		cw.Wait()
		res.Cross = crs
	}
	res.Remaining = len(work)
	res.Exhausted = len(work) == 0 && len(res.EngineErrors) == 0
	return res
}

// sample asks the solver for a model of the finished path and evaluates the observed values under it.
func (r *Run) sample() *Sample {
	terms := append([]*Term{}, r.Inputs...)
	for _, o := range r.Observed {
		terms = append(terms, o.terms...)
	}
	vals, ok := r.S.Eval(r.TT.True(), terms)
	if !ok {
		return nil
	}
	smp := &Sample{Choices: append([]string{}, r.Choices...), Ints: append([]int{}, r.Ints...), Vars: map[string]uint64{}, Decision: append([]int{}, r.Trace...)}
	for _, t := range r.Inputs {
		if v, ok := vals[t]; ok {
			smp.Vars[t.name] = v
		}
	}
	for _, o := range r.Observed {
		smp.Observed = append(smp.Observed, o.label+"="+o.render(vals))
	}
	smp.Threads = r.Sch.active
	smp.Crashed = r.FS.CrashAt != ""
	return smp
}

func sortedKeys(m map[string]int) []string {
	var ks []string
	for k := range m {
		ks = append(ks, k)
	}
	sort.Strings(ks)
	return ks
}
