package main

import (
	"encoding/hex"
	"fmt"
	"sort"
	"strings"
)

// obs is one vsym.Observe call: terms to evaluate under a model and a renderer producing the same text the
// native vsym.Observe prints.
type obs struct {
	label  string
	terms  []*Term
	render func(vals map[*Term]uint64) string
}

func (r *Run) observe(label string, v Value) {
	o := obs{label: label}
	tv := func(n Num) *Term { return r.numTerm(n) }
	switch x := v.(type) {
	case Iface:
		if x.T == nil {
			o.render = func(map[*Term]uint64) string { return "nil" }
			break
		}
		if ms := r.M.Prog.MethodSets.MethodSet(x.T); ms.Lookup(nil, "Error") != nil {
			o.render = func(map[*Term]uint64) string { return "err" }
			break
		}
		r.observe(label, x.V)
		return
	case Num:
		t := tv(x)
		o.terms = []*Term{t}
		o.render = func(vals map[*Term]uint64) string {
			u := vals[t]
			if x.Signed {
				return fmt.Sprint(int64(signExtend(u, x.W)))
			}
			return fmt.Sprint(u)
		}
	case Bool:
		t := r.boolTerm(x)
		o.terms = []*Term{t}
		o.render = func(vals map[*Term]uint64) string { return fmt.Sprint(vals[t] != 0) }
	case Str:
		o.render = func(map[*Term]uint64) string { return fmt.Sprintf("%q", string(x)) }
	case Slice:
		if x.Nil {
			o.render = func(map[*Term]uint64) string { return "nil" }
			break
		}
		ts := make([]*Term, len(x.S))
		for i, e := range x.S {
			n, ok := e.(Num)
			if !ok {
				o.render = func(map[*Term]uint64) string { return "?" }
				ts = nil
				break
			}
			ts[i] = tv(n)
		}
		if o.render == nil {
			o.terms = ts
			o.render = func(vals map[*Term]uint64) string {
				b := make([]byte, len(ts))
				for i, t := range ts {
					b[i] = byte(vals[t])
				}
				return "[" + hex.EncodeToString(b) + "]"
			}
		}
	default:
		o.render = func(map[*Term]uint64) string { return "?" }
	}
	r.Observed = append(r.Observed, o)
}

func (r *Run) regionNames() []string {
	return r.RegionOrder
}

// recordViolation splits a failing condition by the harness' named known-finding regions: one record for a
// counterexample outside every region (if any exists) and one per region that contains a counterexample.
func (r *Run) recordViolation(kind, msg string, cond *Term) {
	tt := r.TT
	names := r.regionNames()
	outside := cond
	for _, n := range names {
		outside = tt.And(outside, tt.Not(r.Regions[n]))
	}
	add := func(c *Term, region string) bool {
		if c.op == "false" {
			return false
		}
		v, ok := r.modelViolation(kind, msg, c)
		if !ok {
			return false
		}
		v.Region = region
		r.Viol = append(r.Viol, v)
		return true
	}
	any := add(outside, "")
	for _, n := range names {
		if add(tt.And(cond, r.Regions[n]), n) {
			any = true
		}
	}
	_ = any
}

func (r *Run) modelViolation(kind, msg string, cond *Term) (Violation, bool) {
	terms := append([]*Term{}, r.Inputs...)
	var names []string
	if r.CrashImage != nil {
		for n := range r.CrashImage {
			names = append(names, n)
		}
		sort.Strings(names)
		for _, n := range names {
			for _, b := range r.CrashImage[n] {
				terms = append(terms, r.numTerm(b.(Num)))
			}
		}
	}
	var outTerms []*Term
	for _, o := range r.RegionOuts {
		outTerms = append(outTerms, r.numTerm(o.(Num)))
	}
	terms = append(terms, outTerms...)
	vals, ok := r.S.Eval(cond, terms)
	if !ok {
		return Violation{}, false
	}
	v := Violation{Msg: msg, Kind: kind, Choices: append([]string{}, r.Choices...), Ints: append([]int{}, r.Ints...), Vars: map[string]uint64{},
		Decision: append([]int{}, r.Trace...), Threads: r.Sch.active, CrashAt: r.FS.CrashAt, CrashKind: r.FS.CrashKind}
	for _, t := range r.Inputs {
		if x, ok := vals[t]; ok {
			v.Vars[t.name] = x
		}
	}
	if r.CrashImage != nil {
		// the image handed to the native replay is recomputed from the model's inputs with the real checksum
		// functions (see ground.go); bytes that cannot be grounded keep the solver's value
		v.Crash = map[string]string{}
		g := newGrounder(v.Vars)
		for _, n := range names {
			bs := make([]byte, len(r.CrashImage[n]))
			for i, b := range r.CrashImage[n] {
				t := r.numTerm(b.(Num))
				g.ok = true
				x := g.eval(t)
				if !g.ok {
					x = vals[t]
					v.Ungrounded++
				}
				bs[i] = byte(x)
			}
			v.Crash[n] = hex.EncodeToString(bs)
		}
		for i, o := range r.RegionOuts {
			n := o.(Num)
			v.Outs = append(v.Outs, int64(signExtend(vals[outTerms[i]], n.W)))
		}
	}
	return v, true
}

func (r *Run) violation(msg string, cond *Term) { r.recordViolation("assert", msg, cond) }

// panicViolation records a target panic (or deadlock) with a model of the current path condition.
func (r *Run) panicViolation(msg string) {
	kind := "panic"
	if strings.Contains(msg, "deadlock") {
		kind = "deadlock"
	}
	r.recordViolation(kind, msg, r.TT.True())
}

func (r *Run) raceViolations() {
	var ks []string
	for k := range r.Sch.races {
		ks = append(ks, k)
	}
	sort.Strings(ks)
	for _, k := range ks {
		r.recordViolation("race", "RACE "+k, r.TT.True())
	}
}

// panicText renders the value of a target panic the way the Go runtime would print it (enough to compare).
func (r *Run) panicText(v Value) string {
	switch x := v.(type) {
	case Str:
		return string(x)
	case Iface:
		if x.T == nil {
			return "nil"
		}
		if ms := r.M.Prog.MethodSets.MethodSet(x.T); ms.Lookup(nil, "Error") != nil {
			s := "?"
			func() {
				defer func() { recover() }()
				s = r.errString(x)
			}()
			return s
		}
		return r.panicText(x.V)
	}
	return fmt.Sprint(r.toNative(v))
}
