package main

import (
	"fmt"
	"github.com/cespare/xxhash/v2"
	"go/token"
	"go/types"
	"hash/crc32"
	"math"
	"os"
	"path/filepath"
	"sort"
	"strings"
)

// errString renders an error/Stringer value by interpreting its Error method.
func (r *Run) errString(v Iface) string {
	if v.T == nil {
		return "<nil>"
	}
	ms := r.M.Prog.MethodSets.MethodSet(v.T)
	sel := ms.Lookup(nil, "Error")
	if sel == nil {
		return "?"
	}
	out := r.callFn(nil, r.M.Prog.MethodValue(sel), []Value{v.V}, nil)
	return string(out.(Str))
}

func (r *Run) toNative(v Value) interface{} {
	switch v := v.(type) {
	case Num:
		if v.T != nil {
			return "<sym>"
		}
		if v.Signed {
			return int64(signExtend(v.C, v.W))
		}
		return v.C
	case Bool:
		if v.T != nil {
			return "<symbool>"
		}
		return v.C
	case Str:
		return string(v)
	case SymStr:
		return "<symstr>"
	case float64:
		return v
	case Iface:
		if v.T == nil {
			return nil
		}
		if ms := r.M.Prog.MethodSets.MethodSet(v.T); ms.Lookup(nil, "Error") != nil {
			return fmt.Errorf("%s", r.errString(v))
		}
		return r.toNative(v.V)
	case Slice:
		bs := make([]byte, len(v.S))
		for i, e := range v.S {
			if n, ok := e.(Num); ok && n.T == nil {
				bs[i] = byte(n.C)
			} else {
				bs[i] = '?'
			}
		}
		return bs
	case Ptr:
		return fmt.Sprintf("%p", v)
	}
	return fmt.Sprintf("<%T>", v)
}

func (r *Run) sprintf(a []Value) (string, *Iface) {
	format := cstr(a[0])
	var args []interface{}
	var wrapped *Iface
	for _, x := range a[1].(Slice).S {
		xi := x.(Iface)
		args = append(args, r.toNative(xi))
	}
	if i := strings.Index(format, "%w"); i >= 0 {
		// find which arg index corresponds: count verbs before
		n := strings.Count(format[:i], "%") - 2*strings.Count(format[:i], "%%")
		if n < len(a[1].(Slice).S) {
			w := a[1].(Slice).S[n].(Iface)
			wrapped = &w
		}
		format = strings.Replace(format, "%w", "%v", -1)
	}
	return fmt.Sprintf(format, args...), wrapped
}

func installStd(m *Machine) {
	I := m.Intr
	nop := func(r *Run, fr *Frame, args []Value) Value { return nil }
	I["fmt.Printf"] = func(r *Run, fr *Frame, a []Value) Value { return Tuple{num(0), nilErr()} }
	I["fmt.Println"] = I["fmt.Printf"]
	I["fmt.Fprintf"] = I["fmt.Printf"]
	I["fmt.Sprintf"] = func(r *Run, fr *Frame, a []Value) Value {
		s, _ := r.sprintf(a)
		return Str(s)
	}
	I["fmt.Sscanf"] = func(r *Run, fr *Frame, a []Value) Value {
		// only the integer verbs kevo uses; destinations are pointers to ints
		str, format := cstr(a[0]), cstr(a[1])
		dst := a[2].(Slice).S
		vals := make([]int64, len(dst))
		ptrs := make([]interface{}, len(dst))
		for i := range vals {
			ptrs[i] = &vals[i]
		}
		n, err := fmt.Sscanf(str, format, ptrs...)
		for i := 0; i < n; i++ {
			p := dst[i].(Iface).V.(Ptr)
			old := (*p).(Num)
			*p = Num{W: old.W, Signed: old.Signed, C: uint64(vals[i]) & mask(old.W)}
		}
		if err != nil {
			return Tuple{num(n), r.newError(err.Error())}
		}
		return Tuple{num(n), nilErr()}
	}
	I["fmt.Errorf"] = func(r *Run, fr *Frame, a []Value) Value {
		s, w := r.sprintf(a)
		if w == nil {
			return r.newError(s)
		}
		wt := r.M.Prog.ImportedPackage("fmt").Type("wrapError").Type()
		cell := new(Value)
		*cell = Struct{Str(s), *w}
		return Iface{T: types.NewPointer(wt), V: Ptr(cell)}
	}
	for _, n := range []string{"Debug", "Info", "Warn", "Error"} {
		I["github.com/KevoDB/kevo/pkg/common/log."+n] = nop
	}
	I["errors.Is"] = func(r *Run, fr *Frame, a []Value) Value {
		e, t := a[0].(Iface), a[1].(Iface)
		for e.T != nil {
			if b := r.valEq(e, t); b.T == nil && b.C {
				return Bool{C: true}
			}
			ms := r.M.Prog.MethodSets.MethodSet(e.T)
			sel := ms.Lookup(nil, "Unwrap")
			if sel == nil {
				break
			}
			out := r.callFn(nil, r.M.Prog.MethodValue(sel), []Value{e.V}, nil)
			ne, ok := out.(Iface)
			if !ok {
				break
			}
			e = ne
		}
		return Bool{C: false}
	}
	I["errors.As"] = func(r *Run, fr *Frame, a []Value) Value {
		e := a[0].(Iface)
		tgt := a[1].(Iface)
		pt, ok := tgt.T.(*types.Pointer)
		if !ok || tgt.V.(Ptr) == nil {
			panic(targetPanic{Str("errors: target must be a non-nil pointer")})
		}
		want := pt.Elem()
		wi, wantIface := want.Underlying().(*types.Interface)
		for e.T != nil {
			if wantIface {
				if types.Implements(e.T, wi) {
					*tgt.V.(Ptr) = e
					return Bool{C: true}
				}
			} else if types.Identical(e.T, want) {
				*tgt.V.(Ptr) = e.V
				return Bool{C: true}
			}
			if _, host := e.V.(*HostObj); host {
				break
			}
			ms := r.M.Prog.MethodSets.MethodSet(e.T)
			sel := ms.Lookup(nil, "Unwrap")
			if sel == nil {
				break
			}
			out := r.callFn(nil, r.M.Prog.MethodValue(sel), []Value{e.V}, nil)
			ne, ok := out.(Iface)
			if !ok {
				break
			}
			e = ne
		}
		return Bool{C: false}
	}
	str1 := func(f func(string) string) func(r *Run, fr *Frame, a []Value) Value {
		return func(r *Run, fr *Frame, a []Value) Value { return Str(f(cstr(a[0]))) }
	}
	I["path/filepath.Base"] = str1(filepath.Base)
	I["path/filepath.Dir"] = str1(filepath.Dir)
	I["path/filepath.Ext"] = str1(filepath.Ext)
	I["path/filepath.Join"] = func(r *Run, fr *Frame, a []Value) Value {
		var ps []string
		for _, x := range a[0].(Slice).S {
			ps = append(ps, cstr(x))
		}
		return Str(filepath.Join(ps...))
	}
	I["strings.Contains"] = func(r *Run, fr *Frame, a []Value) Value { return Bool{C: strings.Contains(cstr(a[0]), cstr(a[1]))} }
	I["strings.HasSuffix"] = func(r *Run, fr *Frame, a []Value) Value { return Bool{C: strings.HasSuffix(cstr(a[0]), cstr(a[1]))} }
	I["strings.HasPrefix"] = func(r *Run, fr *Frame, a []Value) Value { return Bool{C: strings.HasPrefix(cstr(a[0]), cstr(a[1]))} }
	I["strings.TrimSuffix"] = func(r *Run, fr *Frame, a []Value) Value { return Str(strings.TrimSuffix(cstr(a[0]), cstr(a[1]))) }
	I["sort.Strings"] = func(r *Run, fr *Frame, a []Value) Value {
		s := a[0].(Slice).S
		sort.Slice(s, func(i, j int) bool { return s[i].(Str) < s[j].(Str) })
		return nil
	}
	sortSlice := func(r *Run, fr *Frame, a []Value) Value {
		sl := a[0].(Iface).V.(Slice).S
		less := a[1]
		lt := func(i, j int) bool {
			return r.branch(r.call(fr, less, []Value{num(i), num(j)}, 0).(Bool))
		}
		// insertion sort (stable), calls less like the real one does: on indices of the slice being sorted
		for i := 1; i < len(sl); i++ {
			for j := i; j > 0 && lt(j, j-1); j-- {
				sl[j], sl[j-1] = sl[j-1], sl[j]
			}
		}
		return nil
	}
	I["sort.Slice"] = sortSlice
	I["sort.SliceStable"] = sortSlice
	I["hash/crc32.ChecksumIEEE"] = func(r *Run, fr *Frame, a []Value) Value {
		bs := a[0].(Slice).S
		conc := make([]byte, len(bs))
		sym := false
		args := make([]*Term, len(bs))
		for i, b := range bs {
			n := b.(Num)
			if n.T != nil {
				sym = true
			} else {
				conc[i] = byte(n.C)
			}
			args[i] = r.numTerm(n)
		}
		var res *Term
		if !sym {
			res = r.TT.BV(32, uint64(crc32.ChecksumIEEE(conc)))
		} else if t := r.tabulateHash(args, 32, func(b []byte) uint64 { return uint64(crc32.ChecksumIEEE(b)) }); t != nil {
			res = t
		} else {
			res = r.TT.mk(fmt.Sprintf("uf:crc32_%d", len(bs)), 32, 0, "", args...)
		}
		// CRC-32 detects every single-byte error (lemmas L1-L3): instantiated against earlier computations of the
		// same length that differ in exactly one argument position
		r.hashRecord("crc", args, res, true)
		if res.op == "const" {
			return Num{W: 32, C: res.val}
		}
		return Num{W: 32, T: res}
	}
	for _, n := range []string{"Log", "Ceil", "Round", "Exp"} {
		n := n
		I["math."+n] = func(r *Run, fr *Frame, a []Value) Value {
			x := a[0].(float64)
			switch n {
			case "Log":
				return math.Log(x)
			case "Ceil":
				return math.Ceil(x)
			case "Round":
				return math.Round(x)
			}
			return math.Exp(x)
		}
	}
	I["math.Max"] = func(r *Run, fr *Frame, a []Value) Value { return math.Max(a[0].(float64), a[1].(float64)) }
	// abstract bloom filter for harnesses above the bloom_filter package (the real bit operations are checked there):
	// the set of added keys lives in a side table; a tag in the first bit cell survives save/file/load (those only move cells)
	const bfp = "(*github.com/KevoDB/kevo/pkg/bloom_filter.BloomFilter)."
	bloomTag := func(r *Run, bf Struct, create bool) (string, bool) {
		bits := bf[1].(Slice).S
		if len(bits) == 0 {
			return "", false
		}
		if n, ok := bits[0].(Num); ok && n.T != nil && n.T.op == "var" && strings.HasPrefix(n.T.name, "bloomtag_") {
			return n.T.name, true
		}
		if !create {
			return "", false
		}
		r.BloomN++
		name := fmt.Sprintf("bloomtag_%d", r.BloomN)
		bits[0] = Num{W: 8, T: r.TT.Var(name, 8)}
		return name, true
	}
	if os.Getenv("REALBLOOM") == "" {
		I[bfp+"Add"] = func(r *Run, fr *Frame, a []Value) Value {
			bf := (*a[0].(Ptr)).(Struct)
			tag, _ := bloomTag(r, bf, true)
			if r.Bloom == nil {
				r.Bloom = map[string][][]Value{}
			}
			r.Bloom[tag] = append(r.Bloom[tag], append([]Value{}, a[1].(Slice).S...))
			ins := bf[5].(Num)
			bf[5] = Num{W: 64, C: ins.C + 1}
			return nil
		}
		I[bfp+"Contains"] = func(r *Run, fr *Frame, a []Value) Value {
			bf := (*a[0].(Ptr)).(Struct)
			q := a[1].(Slice).S
			tag, ok := bloomTag(r, bf, false)
			if !ok {
				bits := bf[1].(Slice).S
				if len(bits) > 0 {
					if n, isn := bits[0].(Num); isn && n.T == nil && n.C == 0 {
						return Bool{C: false} // nothing was ever added
					}
				}
				r.BloomN++
				return termBool(r.TT.Var(fmt.Sprintf("bloomany_%d", r.BloomN), 0))
			}
			res := r.TT.False()
			for _, k := range r.Bloom[tag] {
				if len(k) == len(q) {
					_, eq := r.lexLess(k, q)
					res = r.TT.Or(res, eq)
				}
			}
			r.BloomN++
			res = r.TT.Or(res, r.TT.Var(fmt.Sprintf("bloomfp_%d", r.BloomN), 0)) // false positives are allowed
			return termBool(res)
		}
	}
	I["(*github.com/KevoDB/kevo/pkg/bloom_filter.BloomFilter).hash"] = func(r *Run, fr *Frame, a []Value) Value {
		// FNV-1a over key and index, reduced mod size: an uninterpreted function of (key bytes, i) below size
		bf := (*a[0].(Ptr)).(Struct)
		size := bf[2].(Num) // field order: mu, bits, size, hashFuncs, ...
		key := a[1].(Slice).S
		args := make([]*Term, 0, len(key)+1)
		for _, b := range key {
			args = append(args, r.numTerm(b.(Num)))
		}
		args = append(args, r.numTerm(a[2].(Num)))
		t := r.TT.mk(fmt.Sprintf("uf:bloomhash_%d", len(key)), 64, 0, "", args...)
		r.assume(r.TT.Bin("bvult", t, r.numTerm(size)))
		return Num{W: 64, T: t}
	}
	I["github.com/cespare/xxhash/v2.Sum64"] = func(r *Run, fr *Frame, a []Value) Value {
		bs := a[0].(Slice).S
		args := make([]*Term, len(bs))
		sym := false
		conc := make([]byte, len(bs))
		for i, b := range bs {
			n := b.(Num)
			args[i] = r.numTerm(n)
			if n.T != nil {
				sym = true
			} else {
				conc[i] = byte(n.C)
			}
		}
		var res *Term
		if !sym {
			res = r.TT.BV(64, xxhash.Sum64(conc))
		} else if t := r.tabulateHash(args, 64, func(b []byte) uint64 { return xxhash.Sum64(b) }); t != nil {
			res = t
		} else {
			res = r.TT.mk(fmt.Sprintf("uf:xxh_%d", len(bs)), 64, 0, "", args...)
		}
		// ideal-checksum assumption: within one path, computations over different arguments give different results
		r.hashRecord("xxh", args, res, false)
		if res.op == "const" {
			return Num{W: 64, C: res.val}
		}
		return Num{W: 64, T: res}
	}
	I["github.com/klauspost/compress/zstd.NewWriter"] = func(r *Run, fr *Frame, a []Value) Value {
		cell := new(Value)
		*cell = Struct{}
		return Tuple{Ptr(cell), nilErr()}
	}
	I["github.com/klauspost/compress/zstd.NewReader"] = I["github.com/klauspost/compress/zstd.NewWriter"]
	I["time.Now"] = func(r *Run, fr *Frame, a []Value) Value {
		r.Clock += 1000
		return Struct{Num{W: 64}, Num{W: 64, Signed: true, C: uint64(r.Clock)}, Ptr(nil)}
	}
	I["(time.Time).UnixNano"] = func(r *Run, fr *Frame, a []Value) Value { return a[0].(Struct)[1] }
	I["time.Since"] = func(r *Run, fr *Frame, a []Value) Value {
		return r.numBinop(token.SUB, Num{W: 64, Signed: true, C: uint64(r.Clock)}, a[0].(Struct)[1].(Num))
	}
}
