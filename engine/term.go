package main

import (
	"fmt"
	"strings"
)

// Term is a hash-consed SMT term. Sort: w==0 → Bool, else BitVec w.
type Term struct {
	op     string
	w      int
	args   []*Term
	val    uint64 // for const
	name   string // for var
	id     int
	tab    []uint64 // non-nil: the term is the 256-entry table tab[v] of the 8-bit variable tabVar
	tabVar *Term
}

type TermTable struct {
	m    map[string]*Term
	next int
	vars []*Term
	tabN int
}

func NewTermTable() *TermTable { return &TermTable{m: map[string]*Term{}} }

func (tt *TermTable) mk(op string, w int, val uint64, name string, args ...*Term) *Term {
	var sb strings.Builder
	fmt.Fprintf(&sb, "%s/%d/%d/%s", op, w, val, name)
	for _, a := range args {
		fmt.Fprintf(&sb, ",%d", a.id)
	}
	k := sb.String()
	if t, ok := tt.m[k]; ok {
		return t
	}
	tt.next++
	t := &Term{op: op, w: w, args: args, val: val, name: name, id: tt.next}
	tt.m[k] = t
	if op == "var" {
		tt.vars = append(tt.vars, t)
	}
	return t
}

func mask(w int) uint64 {
	if w >= 64 {
		return ^uint64(0)
	}
	return (uint64(1) << uint(w)) - 1
}

func (tt *TermTable) BV(w int, v uint64) *Term { return tt.mk("const", w, v&mask(w), "") }
func (tt *TermTable) True() *Term              { return tt.mk("true", 0, 0, "") }
func (tt *TermTable) False() *Term             { return tt.mk("false", 0, 0, "") }
func (tt *TermTable) BoolC(b bool) *Term {
	if b {
		return tt.True()
	}
	return tt.False()
}
func (tt *TermTable) Var(name string, w int) *Term { return tt.mk("var", w, 0, name) }

func (t *Term) isConst() bool { return t.op == "const" || t.op == "true" || t.op == "false" }

func (tt *TermTable) Not(a *Term) *Term {
	switch a.op {
	case "true":
		return tt.False()
	case "false":
		return tt.True()
	case "not":
		return a.args[0]
	}
	return tt.mk("not", 0, 0, "", a)
}
func (tt *TermTable) And(a, b *Term) *Term {
	if a.op == "false" || b.op == "false" {
		return tt.False()
	}
	if a.op == "true" {
		return b
	}
	if b.op == "true" {
		return a
	}
	if a == b {
		return a
	}
	return tt.mk("and", 0, 0, "", a, b)
}
func (tt *TermTable) Or(a, b *Term) *Term {
	if a.op == "true" || b.op == "true" {
		return tt.True()
	}
	if a.op == "false" {
		return b
	}
	if b.op == "false" {
		return a
	}
	if a == b {
		return a
	}
	return tt.mk("or", 0, 0, "", a, b)
}
func (tt *TermTable) Ite(c, a, b *Term) *Term {
	if c.op == "true" {
		return a
	}
	if c.op == "false" {
		return b
	}
	if a == b {
		return a
	}
	return tt.mk("ite", a.w, 0, "", c, a, b)
}
func (tt *TermTable) Eq(a, b *Term) *Term {
	if a == b {
		return tt.True()
	}
	if a.isConst() && b.isConst() {
		return tt.BoolC(a.op == b.op && a.val == b.val)
	}
	if a.tab != nil && b.op == "const" {
		a, b = b, a
	}
	if b.tab != nil && a.op == "const" {
		// a table compared with a constant: true exactly for the variable values whose entry is that constant
		res := tt.False()
		for v, x := range b.tab {
			if x == a.val {
				res = tt.Or(res, tt.mk("=", 0, 0, "", b.tabVar, tt.BV(8, uint64(v))))
			}
		}
		return res
	}
	if a.id > b.id {
		a, b = b, a
	}
	return tt.mk("=", 0, 0, "", a, b)
}

// Bin builds a bit-vector binary op (result width w) or comparison (result bool).
func (tt *TermTable) Bin(op string, a, b *Term) *Term {
	cmp := false
	switch op {
	case "bvult", "bvule", "bvslt", "bvsle", "bvugt", "bvuge", "bvsgt", "bvsge":
		cmp = true
	}
	if cmp {
		if a == b {
			return tt.BoolC(op == "bvule" || op == "bvsle" || op == "bvuge" || op == "bvsge")
		}
		return tt.mk(op, 0, 0, "", a, b)
	}
	return tt.mk(op, a.w, 0, "", a, b)
}
func (tt *TermTable) Un(op string, a *Term) *Term { return tt.mk(op, a.w, 0, "", a) }
func (tt *TermTable) Extract(hi, lo int, a *Term) *Term {
	if hi-lo+1 == a.w {
		return a
	}
	return tt.mk(fmt.Sprintf("(_ extract %d %d)", hi, lo), hi-lo+1, 0, "", a)
}
func (tt *TermTable) ZeroExt(n int, a *Term) *Term {
	if n == 0 {
		return a
	}
	return tt.mk(fmt.Sprintf("(_ zero_extend %d)", n), a.w+n, 0, "", a)
}
func (tt *TermTable) SignExt(n int, a *Term) *Term {
	if n == 0 {
		return a
	}
	return tt.mk(fmt.Sprintf("(_ sign_extend %d)", n), a.w+n, 0, "", a)
}

// SMT printing with let-free DAG expansion via define-fun per shared node would be better;
// the spike prints trees with memoised named definitions.
type Printer struct {
	defined map[int]bool
	ufs     map[string]bool
	out     *strings.Builder
}

func (p *Printer) ref(t *Term) string {
	switch t.op {
	case "const":
		return fmt.Sprintf("(_ bv%d %d)", t.val, t.w)
	case "true", "false":
		return t.op
	case "var":
		return t.name
	}
	return fmt.Sprintf("t%d", t.id)
}

func sortOf(t *Term) string {
	if t.w == 0 {
		return "Bool"
	}
	if t.w == -64 {
		return "(_ FloatingPoint 11 53)"
	}
	return fmt.Sprintf("(_ BitVec %d)", t.w)
}

// Define emits define-fun for t and its subterms (once per solver scope lifetime).
func (p *Printer) Define(t *Term) {
	switch t.op {
	case "const", "true", "false":
		return
	}
	if p.defined[t.id] {
		return
	}
	for _, a := range t.args {
		p.Define(a)
	}
	p.defined[t.id] = true
	if t.op == "var" {
		fmt.Fprintf(p.out, "(declare-const %s %s)\n", t.name, sortOf(t))
		return
	}
	op := t.op
	if strings.HasPrefix(op, "tab:") {
		fn := fmt.Sprintf("tab%s_%d", op[4:], t.id)
		fmt.Fprintf(p.out, "(declare-fun %s ((_ BitVec 8)) %s)\n", fn, sortOf(t))
		for v, x := range t.tab {
			fmt.Fprintf(p.out, "(assert (= (%s (_ bv%d 8)) (_ bv%d %d)))\n", fn, v, x, t.w)
		}
		op = fn
	}
	if strings.HasPrefix(op, "uf:") {
		op = op[3:]
		if !p.defined[-len(op)*1000-int(op[len(op)-1])] && !p.ufs[op] {
			p.ufs[op] = true
			fmt.Fprintf(p.out, "(declare-fun %s (", op)
			for _, a := range t.args {
				p.out.WriteString(sortOf(a) + " ")
			}
			fmt.Fprintf(p.out, ") %s)\n", sortOf(t))
		}
	}
	fmt.Fprintf(p.out, "(define-fun t%d () %s (%s", t.id, sortOf(t), op)
	for _, a := range t.args {
		p.out.WriteString(" ")
		p.out.WriteString(p.ref(a))
	}
	p.out.WriteString("))\n")
}
