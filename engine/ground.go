package main

import (
	"fmt"
	"hash/crc32"
	"strings"

	"github.com/cespare/xxhash/v2"
)

// Grounding: checksums are uninterpreted functions inside the solver, so a model assigns them arbitrary values.
// Whatever is handed to the native replay (input values are plain variables, but a post-crash directory image
// contains bytes computed by the code under test, checksums included) is therefore re-evaluated here from the
// model's *input* values with the real functions. The native run then decides whether the counterexample is real.

type grounder struct {
	env  map[string]uint64
	memo map[*Term]uint64
	ok   bool
	why  string
}

func newGrounder(env map[string]uint64) *grounder {
	return &grounder{env: env, memo: map[*Term]uint64{}, ok: true}
}

func (g *grounder) eval(t *Term) uint64 {
	if v, ok := g.memo[t]; ok {
		return v
	}
	v := g.eval1(t)
	if t.w > 0 {
		v &= mask(t.w)
	}
	g.memo[t] = v
	return v
}

func b2u(b bool) uint64 {
	if b {
		return 1
	}
	return 0
}

func (g *grounder) eval1(t *Term) uint64 {
	a := func(i int) uint64 { return g.eval(t.args[i]) }
	sx := func(i int) int64 { return int64(signExtend(g.eval(t.args[i]), t.args[i].w)) }
	switch t.op {
	case "const":
		return t.val
	case "true":
		return 1
	case "false":
		return 0
	case "var":
		return g.env[t.name]
	case "not":
		return 1 - a(0)
	case "and":
		return a(0) & a(1)
	case "or":
		return a(0) | a(1)
	case "ite":
		if a(0) != 0 {
			return a(1)
		}
		return a(2)
	case "=":
		return b2u(a(0) == a(1))
	case "bvadd":
		return a(0) + a(1)
	case "bvsub":
		return a(0) - a(1)
	case "bvmul":
		return a(0) * a(1)
	case "bvand":
		return a(0) & a(1)
	case "bvor":
		return a(0) | a(1)
	case "bvxor":
		return a(0) ^ a(1)
	case "bvnot":
		return ^a(0)
	case "bvneg":
		return -a(0)
	case "bvshl":
		if a(1) >= uint64(t.w) {
			return 0
		}
		return a(0) << a(1)
	case "bvlshr":
		if a(1) >= uint64(t.w) {
			return 0
		}
		return a(0) >> a(1)
	case "bvashr":
		s := a(1)
		if s >= uint64(t.w) {
			s = uint64(t.w - 1)
		}
		return uint64(sx(0) >> s)
	case "bvudiv":
		if a(1) == 0 {
			return mask(t.w)
		}
		return a(0) / a(1)
	case "bvurem":
		if a(1) == 0 {
			return a(0)
		}
		return a(0) % a(1)
	case "bvsdiv":
		if sx(1) == 0 {
			g.ok, g.why = false, "division by zero"
			return 0
		}
		return uint64(sx(0) / sx(1))
	case "bvsrem":
		if sx(1) == 0 {
			g.ok, g.why = false, "division by zero"
			return 0
		}
		return uint64(sx(0) % sx(1))
	case "bvult":
		return b2u(a(0) < a(1))
	case "bvule":
		return b2u(a(0) <= a(1))
	case "bvugt":
		return b2u(a(0) > a(1))
	case "bvuge":
		return b2u(a(0) >= a(1))
	case "bvslt":
		return b2u(sx(0) < sx(1))
	case "bvsle":
		return b2u(sx(0) <= sx(1))
	case "bvsgt":
		return b2u(sx(0) > sx(1))
	case "bvsge":
		return b2u(sx(0) >= sx(1))
	}
	switch {
	case strings.HasPrefix(t.op, "(_ extract"):
		var hi, lo int
		fmt.Sscanf(t.op, "(_ extract %d %d)", &hi, &lo)
		return (a(0) >> uint(lo)) & mask(hi-lo+1)
	case strings.HasPrefix(t.op, "(_ zero_extend"):
		return a(0)
	case strings.HasPrefix(t.op, "(_ sign_extend"):
		return signExtend(a(0), t.args[0].w)
	case strings.HasPrefix(t.op, "uf:crc32_"):
		bs := make([]byte, len(t.args))
		for i := range t.args {
			bs[i] = byte(a(i))
		}
		return uint64(crc32.ChecksumIEEE(bs))
	case strings.HasPrefix(t.op, "uf:xxh_"):
		bs := make([]byte, len(t.args))
		for i := range t.args {
			bs[i] = byte(a(i))
		}
		return xxhash.Sum64(bs)
	}
	g.ok, g.why = false, "term kind "+t.op+" cannot be grounded"
	return 0
}
