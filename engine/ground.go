package main

import (
	"fmt"
	"hash/crc32"
	"strings"

	"github.com/cespare/xxhash/v2"
)

// Grounding: checksums are uninterpreted functions inside the solver, so a model assigns them arbitrary values.
// Whatever is handed to the native replay (input values are plain variables, but a post-crash directory image
// contains bytes computed by the code under test, checksums included) is therefore re-evaluated here from the
// model's *input* values with the real functions. The native run then decides whether the counterexample is real.

type grounder struct {
	env  map[string]uint64
	memo map[*Term]uint64
	ok   bool
	why  string
}

func newGrounder(env map[string]uint64) *grounder {
	return &grounder{env: env, memo: map[*Term]uint64{}, ok: true}
}

func (g *grounder) eval(t *Term) uint64 {
	if v, ok := g.memo[t]; ok {
		return v
	}
	v := g.eval1(t)
	if t.w > 0 {
		v &= mask(t.w)
	}
	g.memo[t] = v
	return v
}

func b2u(b bool) uint64 {
	if b {
		return 1
	}
	return 0
}

func (g *grounder) eval1(t *Term) uint64 {
	a := func(i int) uint64 { return g.eval(t.args[i]) }
	sx := func(i int) int64 { return int64(signExtend(g.eval(t.args[i]), t.args[i].w)) }
	switch t.op {
	case "const":
		return t.val
	case "true":
		return 1
	case "false":
		return 0
	case "var":
		return g.env[t.name]
	case "not":
		return 1 - a(0)
	case "and":
		return a(0) & a(1)
	case "or":
		return a(0) | a(1)
	case "ite":
		if a(0) != 0 {
			return a(1)
		}
		return a(2)
	case "=":
		return b2u(a(0) == a(1))
	case "bvadd":
		return a(0) + a(1)
	case "bvsub":
		return a(0) - a(1)
	case "bvmul":
		return a(0) * a(1)
	case "bvand":
		return a(0) & a(1)
	case "bvor":
		return a(0) | a(1)
	case "bvxor":
		return a(0) ^ a(1)
	case "bvnot":
		return ^a(0)
	case "bvneg":
		return -a(0)
	case "bvshl":
		if a(1) >= uint64(t.w) {
			return 0
		}
		return a(0) << a(1)
	case "bvlshr":
		if a(1) >= uint64(t.w) {
			return 0
		}
		return a(0) >> a(1)
	case "bvashr":
		s := a(1)
		if s >= uint64(t.w) {
			s = uint64(t.w - 1)
		}
		return uint64(sx(0) >> s)
	case "bvudiv":
		if a(1) == 0 {
			return mask(t.w)
		}
		return a(0) / a(1)
	case "bvurem":
		if a(1) == 0 {
			return a(0)
		}
		return a(0) % a(1)
	case "bvsdiv":
		if sx(1) == 0 {
			g.ok, g.why = false, "division by zero"
			return 0
		}
		return uint64(sx(0) / sx(1))
	case "bvsrem":
		if sx(1) == 0 {
			g.ok, g.why = false, "division by zero"
			return 0
		}
		return uint64(sx(0) % sx(1))
	case "concat":
		return a(0)<<uint(t.args[1].w) | a(1)
	case "bvult":
		return b2u(a(0) < a(1))
	case "bvule":
		return b2u(a(0) <= a(1))
	case "bvugt":
		return b2u(a(0) > a(1))
	case "bvuge":
		return b2u(a(0) >= a(1))
	case "bvslt":
		return b2u(sx(0) < sx(1))
	case "bvsle":
		return b2u(sx(0) <= sx(1))
	case "bvsgt":
		return b2u(sx(0) > sx(1))
	case "bvsge":
		return b2u(sx(0) >= sx(1))
	}
	switch {
	case strings.HasPrefix(t.op, "(_ extract"):
		var hi, lo int
		fmt.Sscanf(t.op, "(_ extract %d %d)", &hi, &lo)
		return (a(0) >> uint(lo)) & mask(hi-lo+1)
	case strings.HasPrefix(t.op, "(_ zero_extend"):
		return a(0)
	case strings.HasPrefix(t.op, "(_ sign_extend"):
		return signExtend(a(0), t.args[0].w)
	case strings.HasPrefix(t.op, "uf:crc32_"):
		bs := make([]byte, len(t.args))
		for i := range t.args {
			bs[i] = byte(a(i))
		}
		return uint64(crc32.ChecksumIEEE(bs))
	case strings.HasPrefix(t.op, "uf:xxh_"):
		bs := make([]byte, len(t.args))
		for i := range t.args {
			bs[i] = byte(a(i))
		}
		return xxhash.Sum64(bs)
	}
	if t.tab != nil {
		return t.tab[a(0)&0xff]
	}
	g.ok, g.why = false, "term kind "+t.op+" cannot be grounded"
	return 0
}

// termVars collects the variables a term depends on.
func termVars(t *Term, seen map[*Term]bool, out map[*Term]bool) {
	if seen[t] {
		return
	}
	seen[t] = true
	if t.op == "var" {
		out[t] = true
		return
	}
	for _, a := range t.args {
		termVars(a, seen, out)
	}
}

// tabulateHash: when the arguments of a checksum depend on a single 8-bit variable (the one altered byte of a
// corruption harness), the checksum is not abstracted at all: it is the 256-entry table of the real function,
// written as an if-then-else chain over that variable. Returns nil if the arguments depend on more.
func (r *Run) tabulateHash(args []*Term, w int, real func([]byte) uint64) *Term {
	vars := map[*Term]bool{}
	seen := map[*Term]bool{}
	for _, a := range args {
		termVars(a, seen, vars)
		if len(vars) > 1 {
			return nil
		}
	}
	if len(vars) != 1 {
		return nil
	}
	var v *Term
	for x := range vars {
		v = x
	}
	if v.w != 8 {
		return nil
	}
	tab := make([]uint64, 256)
	bs := make([]byte, len(args))
	for val := 0; val < 256; val++ {
		g := newGrounder(map[string]uint64{v.name: uint64(val)})
		for i, a := range args {
			bs[i] = byte(g.eval(a))
		}
		if !g.ok {
			return nil
		}
		tab[val] = real(bs) & mask(w)
	}
	// the table is handed to the solver as a function of the variable with 256 point facts (cheap for congruence
	// closure; an if-then-else chain over 64-bit constants is not)
	r.TT.tabN++
	res := r.TT.mk(fmt.Sprintf("tab:%d", r.TT.tabN), w, 0, "", v)
	res.tab, res.tabVar = tab, v
	return res
}

type hashRec struct {
	args []*Term
	res  *Term
}

// hashRecord remembers a checksum computation and adds the distinctness axiom instances against earlier
// computations of the same function and length, whatever their representation (constant, table, UF application).
// singleByteOnly restricts the instances to pairs that differ in exactly one argument position.
func (r *Run) hashRecord(kind string, args []*Term, res *Term, singleByteOnly bool) {
	if r.hashRecs == nil {
		r.hashRecs = map[string][]hashRec{}
	}
	key := fmt.Sprintf("%s/%d", kind, len(args))
	for _, prev := range r.hashRecs[key] {
		if prev.res == res {
			continue
		}
		if prev.res.op == "const" && res.op == "const" {
			continue
		}
		same := r.TT.True()
		ndiff := 0
		for i := range args {
			e := r.TT.Eq(args[i], prev.args[i])
			if e.op != "true" {
				ndiff++
			}
			same = r.TT.And(same, e)
		}
		if same.op == "true" || (singleByteOnly && ndiff != 1) {
			continue
		}
		r.assume(r.TT.Or(same, r.TT.Not(r.TT.Eq(res, prev.res))))
		r.Axioms++
	}
	r.hashRecs[key] = append(r.hashRecs[key], hashRec{args: args, res: res})
}
