package main

import (
	"fmt"
	"go/types"

	"golang.org/x/tools/go/ssa"
)

type Value interface{}

// Num is an integer of w bits; T!=nil means symbolic.
type Num struct {
	W      int
	Signed bool
	C      uint64
	T      *Term
}

type Bool struct {
	C bool
	T *Term
}

type Struct []Value
type Array []Value
type Slice struct {
	S   []Value
	Nil bool
}
type Ptr = *Value // nil pointer: (*Value)(nil)
type Iface struct {
	T types.Type
	V Value
}
type Tuple []Value
type Closure struct {
	Fn  *ssa.Function
	Env []Value
}
type Str string
type UPtr struct{ P *Value } // unsafe.Pointer

func basicInfo(b *types.Basic) (w int, signed bool, ok bool) {
	switch b.Kind() {
	case types.Int, types.Int64, types.UntypedInt:
		return 64, true, true
	case types.Int8:
		return 8, true, true
	case types.Int16:
		return 16, true, true
	case types.Int32, types.UntypedRune:
		return 32, true, true
	case types.Uint, types.Uint64, types.Uintptr:
		return 64, false, true
	case types.Uint8:
		return 8, false, true
	case types.Uint16:
		return 16, false, true
	case types.Uint32:
		return 32, false, true
	}
	return 0, false, false
}

func zero(t types.Type) Value {
	switch t := t.Underlying().(type) {
	case *types.Basic:
		if w, s, ok := basicInfo(t); ok {
			return Num{W: w, Signed: s}
		}
		switch t.Kind() {
		case types.Bool, types.UntypedBool:
			return Bool{}
		case types.String, types.UntypedString:
			return Str("")
		case types.UnsafePointer:
			return UPtr{}
		case types.Float64, types.Float32, types.UntypedFloat:
			return float64(0)
		case types.UntypedNil:
			return nil
		}
		panic("zero: basic " + t.String())
	case *types.Pointer:
		return Ptr(nil)
	case *types.Struct:
		s := make(Struct, t.NumFields())
		for i := range s {
			s[i] = zero(t.Field(i).Type())
		}
		return s
	case *types.Array:
		a := make(Array, t.Len())
		if _, ok := t.Elem().Underlying().(*types.Basic); ok && t.Len() > 0 {
			z := zero(t.Elem())
			for i := range a {
				a[i] = z
			}
			return a
		}
		for i := range a {
			a[i] = zero(t.Elem())
		}
		return a
	case *types.Slice:
		return Slice{Nil: true}
	case *types.Interface:
		return Iface{}
	case *types.Signature:
		return (*Closure)(nil)
	case *types.Map:
		return (*Map)(nil)
	case *types.Chan:
		return (*Chan)(nil)
	case *types.Tuple:
		tp := make(Tuple, t.Len())
		for i := range tp {
			tp[i] = zero(t.At(i).Type())
		}
		return tp
	}
	panic(fmt.Sprintf("zero: %T %s", t, t))
}

func copyVal(v Value) Value {
	switch v := v.(type) {
	case Struct:
		c := make(Struct, len(v))
		for i := range v {
			c[i] = copyVal(v[i])
		}
		return c
	case Array:
		c := make(Array, len(v))
		for i := range v {
			c[i] = copyVal(v[i])
		}
		return c
	}
	return v
}

// Map: association list.
type Map struct {
	Keys []Value
	Vals []Value
	id   Value
}
