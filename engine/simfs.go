package main

import (
	"fmt"
	"go/types"
	"path/filepath"
	"sort"
	"strings"
)

type SimFile struct {
	Data    []Value
	Durable int
}
type Handle struct {
	F      *SimFile
	Name   string
	Pos    int
	Append bool
	Closed bool
}
type SimFS struct {
	Files                            map[string]*SimFile
	Dirs                             map[string]bool
	Handles                          map[*Value]*Handle
	Ops                              int
	errNotExist, errExist, errClosed Value
	tmpN                             int
	Armed                            bool
	Mode                             int // 1 process death, 2 power loss
	CrashAt                          string
	outs                             []Ptr
	CrashKind                        int // 0 none, 1 at an operation boundary, 2 in-flight write torn, 3 unsynced data trimmed (power loss)
}

func NewSimFS() *SimFS {
	return &SimFS{Files: map[string]*SimFile{}, Dirs: map[string]bool{"/": true, "/tmp": true}, Handles: map[*Value]*Handle{}}
}

func (r *Run) newError(msg string) Value {
	et := r.M.Prog.ImportedPackage("errors").Type("errorString").Type()
	cell := new(Value)
	*cell = Struct{Str(msg)}
	return Iface{T: types.NewPointer(et), V: Ptr(cell)}
}

func (r *Run) fsErr(which string) Value {
	fs := r.FS
	switch which {
	case "notexist":
		if fs.errNotExist == nil {
			fs.errNotExist = r.newError("file does not exist")
		}
		return fs.errNotExist
	case "exist":
		if fs.errExist == nil {
			fs.errExist = r.newError("file exists")
		}
		return fs.errExist
	default:
		if fs.errClosed == nil {
			fs.errClosed = r.newError("file already closed")
		}
		return fs.errClosed
	}
}

func (r *Run) hostIface(kind string, data interface{}) Value {
	r.M.mu.Lock()
	nt := r.M.hostTypes[kind]
	if nt == nil {
		nt = types.NewNamed(types.NewTypeName(0, nil, "host_"+kind, nil), types.NewStruct(nil, nil), nil)
		r.M.hostTypes[kind] = nt
	}
	r.M.mu.Unlock()
	return Iface{T: nt, V: &HostObj{Kind: kind, Data: data}}
}

func (r *Run) newFileValue(h *Handle) Value {
	ft := r.M.Prog.ImportedPackage("os").Type("File").Type()
	cell := new(Value)
	*cell = zero(ft)
	r.FS.Handles[cell] = h
	return Ptr(cell)
}

func num(v int) Value     { return Num{W: 64, Signed: true, C: uint64(v)} }
func nilErr() Value       { return Iface{} }
func cstr(v Value) string { return string(v.(Str)) }

func (r *Run) openFile(name string, flag int) Value {
	fs := r.FS
	fs.Ops++
	const (
		oCREATE = 0x40
		oEXCL   = 0x80
		oTRUNC  = 0x200
		oAPPEND = 0x400
	)
	name = filepath.Clean(name)
	f, ok := fs.Files[name]
	if !ok {
		if flag&oCREATE == 0 {
			return Tuple{Ptr(nil), r.fsErr("notexist")}
		}
		if !fs.Dirs[filepath.Dir(name)] {
			return Tuple{Ptr(nil), r.fsErr("notexist")}
		}
		f = &SimFile{}
		fs.Files[name] = f
	} else if flag&oCREATE != 0 && flag&oEXCL != 0 {
		return Tuple{Ptr(nil), r.fsErr("exist")}
	}
	if flag&oTRUNC != 0 {
		f.Data = nil
		f.Durable = 0
	}
	return Tuple{r.newFileValue(&Handle{F: f, Name: name, Append: flag&oAPPEND != 0}), nilErr()}
}

type fileInfo struct {
	name  string
	size  int
	isDir bool
}

func installFS(m *Machine) {
	I := m.Intr
	I["os.MkdirAll"] = func(r *Run, fr *Frame, a []Value) Value {
		p := filepath.Clean(cstr(a[0]))
		for p != "/" && p != "." {
			r.FS.Dirs[p] = true
			p = filepath.Dir(p)
		}
		return nilErr()
	}
	I["os.Stat"] = func(r *Run, fr *Frame, a []Value) Value {
		p := filepath.Clean(cstr(a[0]))
		if r.FS.Dirs[p] {
			return Tuple{r.hostIface("fileinfo", &fileInfo{name: filepath.Base(p), isDir: true}), nilErr()}
		}
		if f, ok := r.FS.Files[p]; ok {
			return Tuple{r.hostIface("fileinfo", &fileInfo{name: filepath.Base(p), size: len(f.Data)}), nilErr()}
		}
		return Tuple{Iface{}, r.fsErr("notexist")}
	}
	I["os.IsNotExist"] = func(r *Run, fr *Frame, a []Value) Value {
		e := a[0].(Iface)
		ne := r.fsErr("notexist").(Iface)
		return Bool{C: e.T != nil && e.V.(Ptr) == ne.V.(Ptr)}
	}
	I["os.OpenFile"] = func(r *Run, fr *Frame, a []Value) Value {
		return r.openFile(cstr(a[0]), int(a[1].(Num).C))
	}
	I["os.Open"] = func(r *Run, fr *Frame, a []Value) Value { return r.openFile(cstr(a[0]), 0) }
	I["os.Create"] = func(r *Run, fr *Frame, a []Value) Value { return r.openFile(cstr(a[0]), 0x2|0x40|0x200) }
	I["os.CreateTemp"] = func(r *Run, fr *Frame, a []Value) Value {
		r.FS.tmpN++
		return r.openFile(fmt.Sprintf("/tmp/%s%d", strings.Replace(cstr(a[1]), "*", "", 1), r.FS.tmpN), 0x2|0x40|0x80)
	}
	I["os.Remove"] = func(r *Run, fr *Frame, a []Value) Value {
		p := filepath.Clean(cstr(a[0]))
		r.FS.Ops++
		r.crashPoint("remove:"+filepath.Base(p), nil, nil)
		if _, ok := r.FS.Files[p]; !ok {
			return r.fsErr("notexist")
		}
		delete(r.FS.Files, p)
		return nilErr()
	}
	I["os.Rename"] = func(r *Run, fr *Frame, a []Value) Value {
		o, n := filepath.Clean(cstr(a[0])), filepath.Clean(cstr(a[1]))
		r.FS.Ops++
		r.crashPoint("rename:"+filepath.Base(o), nil, nil)
		f, ok := r.FS.Files[o]
		if !ok {
			return r.fsErr("notexist")
		}
		delete(r.FS.Files, o)
		r.FS.Files[n] = f
		return nilErr()
	}
	I["os.ReadFile"] = func(r *Run, fr *Frame, a []Value) Value {
		f, ok := r.FS.Files[filepath.Clean(cstr(a[0]))]
		if !ok {
			return Tuple{Slice{Nil: true}, r.fsErr("notexist")}
		}
		return Tuple{Slice{S: append([]Value{}, f.Data...)}, nilErr()}
	}
	I["os.WriteFile"] = func(r *Run, fr *Frame, a []Value) Value {
		p := filepath.Clean(cstr(a[0]))
		if !r.FS.Dirs[filepath.Dir(p)] {
			return r.fsErr("notexist")
		}
		r.FS.Ops++
		d := append([]Value{}, a[1].(Slice).S...)
		// os.WriteFile = open(O_TRUNC) + write + close: a crash can leave the file empty or with a prefix
		nf := &SimFile{}
		r.FS.Files[p] = nf
		r.crashPoint("writefile:"+filepath.Base(p), &Handle{F: nf, Name: p}, d)
		nf.Data = d
		return nilErr()
	}
	I["os.ReadDir"] = func(r *Run, fr *Frame, a []Value) Value {
		d := filepath.Clean(cstr(a[0]))
		if !r.FS.Dirs[d] {
			return Tuple{Slice{Nil: true}, r.fsErr("notexist")}
		}
		var names []string
		seen := map[string]bool{}
		for p := range r.FS.Files {
			if filepath.Dir(p) == d {
				names = append(names, filepath.Base(p))
			}
		}
		for p := range r.FS.Dirs {
			if filepath.Dir(p) == d && p != d && !seen[p] {
				names = append(names, filepath.Base(p)+"/")
			}
		}
		sort.Strings(names)
		var out []Value
		for _, n := range names {
			fi := &fileInfo{name: strings.TrimSuffix(n, "/"), isDir: strings.HasSuffix(n, "/")}
			if f, ok := r.FS.Files[filepath.Join(d, fi.name)]; ok {
				fi.size = len(f.Data)
			}
			out = append(out, r.hostIface("direntry", fi))
		}
		return Tuple{Slice{S: out}, nilErr()}
	}
	I["path/filepath.Glob"] = func(r *Run, fr *Frame, a []Value) Value {
		pat := cstr(a[0])
		var ms []string
		for p := range r.FS.Files {
			if ok, _ := filepath.Match(pat, p); ok {
				ms = append(ms, p)
			}
		}
		sort.Strings(ms)
		var out []Value
		for _, s := range ms {
			out = append(out, Str(s))
		}
		return Tuple{Slice{S: out, Nil: len(out) == 0}, nilErr()}
	}
	h := func(r *Run, v Value) *Handle {
		p := v.(Ptr)
		if p == nil {
			panic(targetPanic{Str("nil *os.File")})
		}
		hd := r.FS.Handles[p]
		if hd == nil {
			panic("unknown os.File")
		}
		return hd
	}
	I["(*os.File).Write"] = func(r *Run, fr *Frame, a []Value) Value {
		hd := h(r, a[0])
		if hd.Closed {
			return Tuple{num(0), r.fsErr("closed")}
		}
		r.FS.Ops++
		b := a[1].(Slice).S
		r.crashPoint("write:"+filepath.Base(hd.Name), hd, b)
		if hd.Append {
			hd.Pos = len(hd.F.Data)
		}
		for len(hd.F.Data) < hd.Pos {
			hd.F.Data = append(hd.F.Data, Num{W: 8})
		}
		hd.F.Data = append(hd.F.Data[:hd.Pos:hd.Pos], append(append([]Value{}, b...), hd.F.Data[min(hd.Pos+len(b), len(hd.F.Data)):]...)...)
		hd.Pos += len(b)
		return Tuple{num(len(b)), nilErr()}
	}
	eof := func(r *Run) Value {
		g := r.M.Prog.ImportedPackage("io").Var("EOF")
		return *(r.global(g).(Ptr))
	}
	I["(*os.File).Read"] = func(r *Run, fr *Frame, a []Value) Value {
		hd := h(r, a[0])
		b := a[1].(Slice).S
		if hd.Closed {
			return Tuple{num(0), r.fsErr("closed")}
		}
		if hd.Pos >= len(hd.F.Data) {
			if len(b) == 0 {
				return Tuple{num(0), nilErr()}
			}
			return Tuple{num(0), eof(r)}
		}
		n := copy(b, hd.F.Data[hd.Pos:])
		hd.Pos += n
		return Tuple{num(n), nilErr()}
	}
	I["(*os.File).ReadAt"] = func(r *Run, fr *Frame, a []Value) Value {
		hd := h(r, a[0])
		b := a[1].(Slice).S
		if hd.Closed {
			return Tuple{num(0), r.fsErr("closed")}
		}
		on := a[2].(Num)
		if on.T != nil {
			// an offset computed from file contents (a damaged index or footer): beyond the file, negative, or one
			// of the feasible in-range values
			beyond := r.TT.Bin("bvuge", on.T, r.TT.BV(on.W, uint64(len(hd.F.Data))))
			if r.branch(Bool{T: beyond}) {
				return Tuple{num(0), eof(r)}
			}
		}
		off := int(int64(r.concretize(on, 0, uint64(len(hd.F.Data)))))
		if off < 0 {
			return Tuple{num(0), r.newError("negative offset")}
		}
		if off >= len(hd.F.Data) {
			return Tuple{num(0), eof(r)}
		}
		n := copy(b, hd.F.Data[off:])
		if n < len(b) {
			return Tuple{num(n), eof(r)}
		}
		return Tuple{num(n), nilErr()}
	}
	I["(*os.File).Sync"] = func(r *Run, fr *Frame, a []Value) Value {
		hd := h(r, a[0])
		if hd.Closed {
			return r.fsErr("closed")
		}
		r.FS.Ops++
		r.crashPoint("sync:"+filepath.Base(hd.Name), nil, nil)
		hd.F.Durable = len(hd.F.Data)
		return nilErr()
	}
	I["(*os.File).Close"] = func(r *Run, fr *Frame, a []Value) Value {
		hd := h(r, a[0])
		if hd.Closed {
			return r.fsErr("closed")
		}
		hd.Closed = true
		return nilErr()
	}
	truncate := func(r *Run, f *SimFile, n int) {
		for len(f.Data) < n {
			f.Data = append(f.Data, Num{W: 8})
		}
		f.Data = f.Data[:n:n]
		if f.Durable > n {
			f.Durable = n
		}
	}
	I["(*os.File).Truncate"] = func(r *Run, fr *Frame, a []Value) Value {
		hd := h(r, a[0])
		if hd.Closed {
			return r.fsErr("closed")
		}
		n := int(int64(r.concretize(a[1].(Num), 0, 1<<20)))
		if n < 0 {
			return r.newError("invalid argument")
		}
		r.FS.Ops++
		r.crashPoint("truncate:"+filepath.Base(hd.Name), nil, nil)
		truncate(r, hd.F, n)
		return nilErr()
	}
	I["os.Truncate"] = func(r *Run, fr *Frame, a []Value) Value {
		f, ok := r.FS.Files[filepath.Clean(cstr(a[0]))]
		if !ok {
			return r.fsErr("notexist")
		}
		n := int(int64(r.concretize(a[1].(Num), 0, 1<<20)))
		if n < 0 {
			return r.newError("invalid argument")
		}
		r.FS.Ops++
		r.crashPoint("truncate:"+filepath.Base(cstr(a[0])), nil, nil)
		truncate(r, f, n)
		return nilErr()
	}
	I["(*os.File).Seek"] = func(r *Run, fr *Frame, a []Value) Value {
		hd := h(r, a[0])
		if hd.Closed {
			return Tuple{Num{W: 64, Signed: true}, r.fsErr("closed")}
		}
		off := int(int64(r.concretize(a[1].(Num), 0, 1<<20)))
		switch int(r.concretize(a[2].(Num), 0, 2)) {
		case 0:
		case 1:
			off += hd.Pos
		case 2:
			off += len(hd.F.Data)
		}
		if off < 0 {
			return Tuple{Num{W: 64, Signed: true}, r.newError("invalid argument")}
		}
		hd.Pos = off
		return Tuple{Num{W: 64, Signed: true, C: uint64(off)}, nilErr()}
	}
	I["(*os.File).WriteAt"] = func(r *Run, fr *Frame, a []Value) Value {
		hd := h(r, a[0])
		if hd.Closed {
			return Tuple{num(0), r.fsErr("closed")}
		}
		b := a[1].(Slice).S
		off := int(int64(r.concretize(a[2].(Num), 0, 1<<20)))
		if off < 0 {
			return Tuple{num(0), r.newError("negative offset")}
		}
		r.FS.Ops++
		r.crashPoint("writeat:"+filepath.Base(hd.Name), nil, nil)
		for len(hd.F.Data) < off+len(b) {
			hd.F.Data = append(hd.F.Data, Num{W: 8})
		}
		copy(hd.F.Data[off:], b)
		if hd.F.Durable > off {
			hd.F.Durable = off
		}
		return Tuple{num(len(b)), nilErr()}
	}
	I["os.Chmod"] = func(r *Run, fr *Frame, a []Value) Value { return nilErr() }
	I["os.RemoveAll"] = func(r *Run, fr *Frame, a []Value) Value {
		p := filepath.Clean(cstr(a[0]))
		r.FS.Ops++
		r.crashPoint("removeall:"+filepath.Base(p), nil, nil)
		for n := range r.FS.Files {
			if n == p || strings.HasPrefix(n, p+"/") {
				delete(r.FS.Files, n)
			}
		}
		for n := range r.FS.Dirs {
			if n == p || strings.HasPrefix(n, p+"/") {
				delete(r.FS.Dirs, n)
			}
		}
		return nilErr()
	}
	I["(*os.File).Name"] = func(r *Run, fr *Frame, a []Value) Value { return Str(h(r, a[0]).Name) }
	I["(*os.File).Stat"] = func(r *Run, fr *Frame, a []Value) Value {
		hd := h(r, a[0])
		return Tuple{r.hostIface("fileinfo", &fileInfo{name: filepath.Base(hd.Name), size: len(hd.F.Data)}), nilErr()}
	}
}

func (r *Run) hostCall(o *HostObj, method string, args []Value) Value {
	switch o.Kind {
	case "ctx":
		return r.ctxCall(o.Data.(*ctxObj), method, args)
	case "grpcstatus":
		st := o.Data.(*grpcStatus)
		switch method {
		case "Error":
			return Str(fmt.Sprintf("rpc error: code = %d desc = %s", st.code, st.msg))
		case "GRPCStatus":
			cell := new(Value)
			*cell = &HostObj{Kind: "grpcstatusval", Data: st}
			return Ptr(cell)
		}
	case "fileinfo", "direntry":
		fi := o.Data.(*fileInfo)
		switch method {
		case "Size":
			return Num{W: 64, Signed: true, C: uint64(fi.size)}
		case "Name":
			return Str(fi.name)
		case "IsDir":
			return Bool{C: fi.isDir}
		case "Info":
			return Tuple{r.hostIface("fileinfo", fi), nilErr()}
		}
	}
	panic("hostCall " + o.Kind + "." + method)
}

type crashSignal struct{}

// crashPoint is called at the start of every mutating FS operation. n>0: bytes about to be written to hd.
func (r *Run) crashPoint(op string, hd *Handle, data []Value) {
	fs := r.FS
	if !fs.Armed {
		return
	}
	c := r.decide(2, func(i int) *Term { return nil })
	if c == 0 {
		return
	}
	fs.Armed = false
	fs.CrashKind = 1
	fs.CrashAt = fmt.Sprintf("%s#%d", op, fs.Ops)
	r.Choices = append(r.Choices, "crash@"+fs.CrashAt)
	if hd != nil && len(data) > 0 {
		// torn in-flight write: a prefix of the data reaches the file
		var cands []int
		if len(data) <= 24 {
			for i := 0; i <= len(data); i++ {
				cands = append(cands, i)
			}
		} else {
			cands = []int{0, 1, 6, 7, 8, len(data) / 2, len(data) - 1, len(data)}
		}
		k := cands[r.decide(len(cands), func(i int) *Term { return nil })]
		r.Choices = append(r.Choices, fmt.Sprintf("torn=%d/%d", k, len(data)))
		if k > 0 && k < len(data) {
			fs.CrashKind = 2
		}
		pos := hd.Pos
		if hd.Append {
			pos = len(hd.F.Data)
		}
		hd.F.Data = append(hd.F.Data[:pos:pos], data[:k]...)
	}
	if fs.Mode == 2 {
		var names []string
		for n, f := range fs.Files {
			if f.Durable < len(f.Data) {
				names = append(names, n)
			}
		}
		sort.Strings(names)
		for _, n := range names {
			f := fs.Files[n]
			span := len(f.Data) - f.Durable
			var cands []int
			if span <= 24 {
				for i := 0; i <= span; i++ {
					cands = append(cands, i)
				}
			} else {
				cands = []int{0, 1, 7, span / 2, span - 1, span}
			}
			k := cands[r.decide(len(cands), func(i int) *Term { return nil })]
			r.Choices = append(r.Choices, fmt.Sprintf("keep=%d/%d", k, span))
			if k < span && fs.CrashKind == 1 {
				fs.CrashKind = 3
			}
			f.Data = f.Data[:f.Durable+k]
		}
	}
	fs.Handles = map[*Value]*Handle{}
	// snapshot of what the crash left on disk (for the native replay) and of the harness' bookkeeping variables
	r.CrashImage = map[string][]Value{}
	for n, f := range fs.Files {
		r.CrashImage[n] = append([]Value{}, f.Data...)
	}
	r.RegionOuts = nil
	for _, p := range fs.outs {
		r.RegionOuts = append(r.RegionOuts, *p)
	}
	panic(crashSignal{})
}
