package main

import (
	"fmt"
	"go/token"
	"strings"
)

type ctxObj struct {
	parent   *ctxObj
	done     *Chan
	err      Value
	key, val Value
	children []*ctxObj
}

func (r *Run) ctxIface(c *ctxObj) Value { return r.hostIface("ctx", c) }

func (r *Run) ctxCancel(c *ctxObj, err Value) {
	if c.done == nil || c.done.closed {
		return
	}
	c.done.closed = true
	c.err = err
	if r.Sch.active {
		r.releaseVC(&c.done.id)
	}
	for _, ch := range c.children {
		r.ctxCancel(ch, err)
	}
}

func ctxOf(v Value) *ctxObj {
	i := v.(Iface)
	if i.T == nil {
		panic(targetPanic{Str("nil context")})
	}
	return i.V.(*HostObj).Data.(*ctxObj)
}

func installCtx(m *Machine) {
	I := m.Intr
	I["context.Background"] = func(r *Run, fr *Frame, a []Value) Value { return r.ctxIface(&ctxObj{}) }
	I["context.TODO"] = I["context.Background"]
	mkChild := func(r *Run, parent *ctxObj, timer bool) (*ctxObj, Value) {
		c := &ctxObj{parent: parent, done: &Chan{zero: Struct{}}}
		if timer {
			c.done.timer = &TimerState{}
			c.done.onFire = func() { r.ctxCancel(c, r.newError("context deadline exceeded")) }
		}
		parent.children = append(parent.children, c)
		if parent.done != nil && parent.done.closed {
			r.ctxCancel(c, parent.err)
		}
		cancel := &HostFunc{F: func(r *Run, args []Value) Value {
			if c.done.timer != nil {
				c.done.timer.stopped = true
			}
			r.ctxCancel(c, r.newError("context canceled"))
			return nil
		}}
		return c, cancel
	}
	I["context.WithTimeout"] = func(r *Run, fr *Frame, a []Value) Value {
		c, cancel := mkChild(r, ctxOf(a[0]), true)
		return Tuple{r.ctxIface(c), cancel}
	}
	I["context.WithDeadline"] = I["context.WithTimeout"]
	I["context.WithCancel"] = func(r *Run, fr *Frame, a []Value) Value {
		c, cancel := mkChild(r, ctxOf(a[0]), false)
		return Tuple{r.ctxIface(c), cancel}
	}
	I["context.WithValue"] = func(r *Run, fr *Frame, a []Value) Value {
		p := ctxOf(a[0])
		c := &ctxObj{parent: p, done: p.done, key: a[1], val: a[2]}
		return r.ctxIface(c)
	}
	// time
	I["time.After"] = func(r *Run, fr *Frame, a []Value) Value {
		return &Chan{cap: 1, timer: &TimerState{}, zero: Struct{Num{W: 64}, Num{W: 64, Signed: true}, Ptr(nil)}}
	}
	mkTimerStruct := func(r *Run, typ string, ticker bool) Value {
		tt := r.M.Prog.ImportedPackage("time").Type(typ).Type()
		cell := new(Value)
		st := zero(tt).(Struct)
		st[0] = &Chan{cap: 1, timer: &TimerState{ticker: ticker}, zero: Struct{Num{W: 64}, Num{W: 64, Signed: true}, Ptr(nil)}}
		*cell = st
		return Ptr(cell)
	}
	I["time.NewTimer"] = func(r *Run, fr *Frame, a []Value) Value { return mkTimerStruct(r, "Timer", false) }
	I["time.NewTicker"] = func(r *Run, fr *Frame, a []Value) Value { return mkTimerStruct(r, "Ticker", true) }
	I["(*time.Ticker).Stop"] = func(r *Run, fr *Frame, a []Value) Value { return nil }
	I["(*time.Timer).Stop"] = func(r *Run, fr *Frame, a []Value) Value {
		c := (*a[0].(Ptr)).(Struct)[0].(*Chan)
		was := !c.timer.fired && !c.timer.stopped
		c.timer.stopped = true
		return Bool{C: was}
	}
	I["(*time.Timer).Reset"] = func(r *Run, fr *Frame, a []Value) Value {
		c := (*a[0].(Ptr)).(Struct)[0].(*Chan)
		was := !c.timer.fired && !c.timer.stopped
		c.timer.fired, c.timer.stopped = false, false
		return Bool{C: was}
	}
	I["(time.Time).Format"] = func(r *Run, fr *Frame, a []Value) Value {
		return Str(fmt.Sprintf("T%d", a[0].(Struct)[1].(Num).C))
	}
	I["(time.Time).Sub"] = func(r *Run, fr *Frame, a []Value) Value {
		return r.numBinop(subTok, a[0].(Struct)[1].(Num), a[1].(Struct)[1].(Num))
	}
	I["(time.Time).Add"] = func(r *Run, fr *Frame, a []Value) Value {
		t := a[0].(Struct)
		return Struct{t[0], r.numBinop(token.ADD, t[1].(Num), a[1].(Num)), t[2]}
	}
	cmpT := func(op token.Token) func(r *Run, fr *Frame, a []Value) Value {
		return func(r *Run, fr *Frame, a []Value) Value {
			return r.numBinop(op, a[0].(Struct)[1].(Num), a[1].(Struct)[1].(Num))
		}
	}
	I["(time.Time).After"] = cmpT(token.GTR)
	I["(time.Time).Before"] = cmpT(token.LSS)
	I["(time.Time).Equal"] = cmpT(token.EQL)
	I["time.Unix"] = func(r *Run, fr *Frame, a []Value) Value {
		sec, ns := a[0].(Num), a[1].(Num)
		if sec.T != nil || sec.C != 0 {
			secNs := r.numBinop(token.MUL, sec, Num{W: 64, Signed: true, C: 1000000000}).(Num)
			ns = r.numBinop(token.ADD, secNs, ns).(Num)
		}
		return Struct{Num{W: 64}, ns, Ptr(nil)}
	}
	I["(time.Duration).String"] = func(r *Run, fr *Frame, a []Value) Value { return Str("<duration>") }
	I["(time.Duration).Seconds"] = func(r *Run, fr *Frame, a []Value) Value {
		d := a[0].(Num)
		if d.T != nil {
			return FSym{T: r.TT.mk("fp.div RNE", -64, 0, "", r.TT.mk("(_ to_fp 11 53) RNE", -64, 0, "", d.T), r.fterm(float64(1e9)))}
		}
		return float64(int64(d.C)) / 1e9
	}
	I["(time.Time).Unix"] = func(r *Run, fr *Frame, a []Value) Value {
		n := a[0].(Struct)[1].(Num)
		return Num{W: 64, Signed: true, C: n.C / 1e9}
	}
	I["(time.Time).IsZero"] = func(r *Run, fr *Frame, a []Value) Value {
		n := a[0].(Struct)[1].(Num)
		return Bool{C: n.T == nil && n.C == 0}
	}
	_ = strings.Contains
}

func (r *Run) ctxCall(c *ctxObj, method string, args []Value) Value {
	switch method {
	case "Done":
		for p := c; p != nil; p = p.parent {
			if p.done != nil {
				return p.done
			}
		}
		return (*Chan)(nil)
	case "Err":
		for p := c; p != nil; p = p.parent {
			if p.done != nil {
				if p.done.closed {
					return p.err
				}
				return Iface{}
			}
		}
		return Iface{}
	case "Value":
		for p := c; p != nil; p = p.parent {
			if p.key != nil {
				if b := r.valEq(p.key, args[0]); b.T == nil && b.C {
					return p.val
				}
			}
		}
		return Iface{}
	case "Deadline":
		return Tuple{Struct{Num{W: 64}, Num{W: 64, Signed: true}, Ptr(nil)}, Bool{C: false}}
	}
	panic("ctx method " + method)
}
