package main

import (
	"encoding/json"
	"flag"
	"fmt"
	"go/types"
	"os"
	"path/filepath"
	"sort"
	"strings"
	"time"

	"golang.org/x/tools/go/packages"
	"golang.org/x/tools/go/ssa"
	"golang.org/x/tools/go/ssa/ssautil"
)

func rd(p string) []byte {
	b, err := os.ReadFile(p)
	if err != nil {
		panic(err)
	}
	return b
}

// verifRoot is /verif (the directory that holds engine/, harness/, vsym/, checks.json ...).
func verifRoot() string {
	if v := os.Getenv("VERIF_ROOT"); v != "" {
		return v
	}
	exe, err := os.Executable()
	if err == nil {
		d := filepath.Dir(filepath.Dir(exe)) // <root>/bin/gosym
		if _, err := os.Stat(filepath.Join(d, "checks.json")); err == nil {
			return d
		}
	}
	return "/verif"
}

func repoRoot() string {
	if v := os.Getenv("VERIF_REPO"); v != "" {
		return v
	}
	return "/repo"
}

// Loaded is the SSA program of the repository packages under test plus the harness overlay.
type Loaded struct {
	Prog    *ssa.Program
	Pkgs    map[string]*ssa.Package // by repo-relative dir ("pkg/memtable")
	M       *Machine
	HFiles  map[string]string
	VsymSrc string
	Root    string
	LoadS   float64
	Extra   map[string]string
}

// load builds SSA for the given repo-relative package dirs from the repository's current working tree,
// with every harness file of those packages injected by overlay.
func load(root, vroot string, pkgRels []string) (*Loaded, error) {
	t0 := time.Now()
	overlay := map[string][]byte{}
	vsymSrc := filepath.Join(vroot, "vsym", "vsym.go")
	overlay[root+"/pkg/zzverif/vsym/vsym.go"] = rd(vsymSrc)
	hfiles := map[string]string{}
	var patterns []string
	for _, rel := range pkgRels {
		patterns = append(patterns, "./"+rel)
		hd := filepath.Join(vroot, "harness", rel)
		ents, err := os.ReadDir(hd)
		if err != nil {
			return nil, fmt.Errorf("no harness directory %s: %v", hd, err)
		}
		for _, e := range ents {
			if strings.HasSuffix(e.Name(), ".go") {
				real := filepath.Join(hd, e.Name())
				virt := root + "/" + rel + "/zz_verif_" + e.Name()
				hfiles[virt] = real
				overlay[virt] = rd(real)
			}
		}
	}
	extra := map[string]string{}
	if mf := os.Getenv("MUTFILE"); mf != "" {
		overlay[os.Getenv("MUTTARGET")] = rd(mf)
		extra[os.Getenv("MUTTARGET")] = mf
	}
	cfg := &packages.Config{Mode: packages.LoadAllSyntax, Dir: root, Overlay: overlay, BuildFlags: []string{"-tags=verif"},
		Env: append(os.Environ(), "GOFLAGS=-mod=mod")}
	pkgs, err := packages.Load(cfg, patterns...)
	if err != nil {
		return nil, err
	}
	var errs []string
	packages.Visit(pkgs, nil, func(p *packages.Package) {
		for _, e := range p.Errors {
			errs = append(errs, e.Error())
		}
	})
	if len(errs) > 0 {
		return nil, fmt.Errorf("the tree (with harness overlay) does not type-check:\n  %s", strings.Join(errs, "\n  "))
	}
	prog, spkgs := ssautil.AllPackages(pkgs, ssa.InstantiateGenerics)
	prog.Build()
	l := &Loaded{Prog: prog, Pkgs: map[string]*ssa.Package{}, HFiles: hfiles, VsymSrc: vsymSrc, Root: root, Extra: extra}
	for i, p := range pkgs {
		rel := strings.TrimPrefix(p.PkgPath, "github.com/KevoDB/kevo/")
		l.Pkgs[rel] = spkgs[i]
	}
	m := &Machine{Prog: prog, Intr: map[string]func(*Run, *Frame, []Value) Value{}, hostTypes: map[string]*types.Named{}}
	installIntrinsics(m)
	installFS(m)
	installStd(m)
	installThreads(m)
	installCtx(m)
	installReflect(m)
	installMore(m)
	installBinary(m)
	installGRPCStatus(m)
	l.M = m
	l.LoadS = time.Since(t0).Seconds()
	return l, nil
}

func (l *Loaded) harnessNames(rel string) []string {
	var hs []string
	p := l.Pkgs[rel]
	if p == nil {
		return nil
	}
	for name, mem := range p.Members {
		if f, ok := mem.(*ssa.Function); ok && strings.HasPrefix(name, "Verif") && f.Signature.Params().Len() == 0 && f.Signature.Results().Len() == 0 {
			hs = append(hs, name)
		}
	}
	sort.Strings(hs)
	return hs
}

func main() {
	if len(os.Args) < 2 {
		fmt.Fprintln(os.Stderr, "usage: gosym run|check|replay ...")
		os.Exit(2)
	}
	switch os.Args[1] {
	case "run":
		cmdRun(os.Args[2:])
	case "check":
		os.Exit(cmdCheck(os.Args[2:]))
	case "replay":
		os.Exit(cmdReplay(os.Args[2:]))
	default:
		fmt.Fprintln(os.Stderr, "unknown command", os.Args[1])
		os.Exit(2)
	}
}

// cmdRun: development entry point — one harness, verbose output.
func cmdRun(args []string) {
	fs := flag.NewFlagSet("run", flag.ExitOnError)
	pkgRel := fs.String("pkg", "pkg/memtable", "repo-relative package dir")
	fnName := fs.String("fn", "", "harness function")
	maxZeros := fs.Int("maxzeros", 0, "max consecutive zero draws (tower height-1)")
	workers := fs.Int("j", 16, "workers")
	showFns := fs.Bool("fns", false, "list functions")
	pbound := fs.Int("preempt", 1, "preemption bound")
	maxPaths := fs.Int("maxpaths", 0, "stop after this many paths")
	nreplay := fs.Int("replay", 2, "violation kinds to replay natively")
	thorough := fs.Bool("thorough", false, "thorough bounds")
	budget := fs.Float64("budget", 0, "wall budget (s)")
	validate := fs.Int("validate", 0, "paths to validate natively")
	stepcap := fs.Int("stepcap", 0, "per-path step cap")
	noraces := fs.Bool("noraces", false, "do not report data races")
	cross := fs.String("cross", "", "comma-separated second solvers for the cross-check (e.g. z3-new,cvc5)")
	bg := fs.String("bg", "", "comma-separated background loops to start as threads (backgroundFlush,compactionWorker,...)")
	conccap := fs.Int("conccap", 0, "cap on the number of values a symbolic length/index may be forked into")
	mapOrders := fs.Bool("maporders", false, "fork over the iteration order of small maps in kevo's code")
	tracePath := fs.String("trace", "", "replay file: re-execute that one path with a trace of scheduling points")
	fs.Parse(args)
	rel := strings.TrimPrefix(*pkgRel, "./")
	l, err := load(repoRoot(), verifRoot(), []string{rel})
	if err != nil {
		fmt.Println("LOAD ERROR:", err)
		os.Exit(2)
	}
	fmt.Printf("loaded+built in %.1fs\n", l.LoadS)
	fn := l.Pkgs[rel].Func(*fnName)
	if fn == nil {
		fmt.Println("no harness", *fnName, "; available:", l.harnessNames(rel))
		os.Exit(2)
	}
	if *tracePath != "" {
		var rp struct {
			Decision []int
			Vars     map[string]uint64
		}
		json.Unmarshal(rd(*tracePath), &rp)
		o := &Opts{Workers: 1, Preempt: *pbound, MaxZeros: *maxZeros, Thorough: *thorough, Trace: true}
		v := Violation{Decision: rp.Decision, Vars: rp.Vars}
		fmt.Println("reproduced:", replayInterp(l, rel, *fnName, v, o))
		return
	}
	o := &Opts{Workers: *workers, Preempt: *pbound, MaxZeros: *maxZeros, Thorough: *thorough, MaxPaths: *maxPaths, BudgetS: *budget, Verbose: true, Samples: 3, Validate: *validate, StepCap: *stepcap, ConcCap: *conccap}
	o.NoRaces = *noraces
	o.MapOrders = *mapOrders
	if *cross != "" {
		o.Cross, o.CrossMaxQ, o.CrossS = strings.Split(*cross, ","), 300, 120
	}
	if *bg != "" {
		o.Background = map[string]bool{}
		for _, b := range strings.Split(*bg, ",") {
			o.Background[b] = true
		}
	}
	res := explore(l.M, fn, o)
	fmt.Printf("paths=%d aborted=%v steps=%d asserts=%d queries=%d (sat %d unsat %d unknown %d) solver(cpu)=%.1fs wall=%.1fs (%.0f steps/s) exhausted=%v remaining=%d\n",
		res.Paths, res.Aborted, res.Steps, res.Asserts, res.Queries, res.QSat, res.QUnsat, res.QUnknown, res.SolverS, res.WallS, float64(res.Steps)/res.WallS, res.Exhausted, res.Remaining)
	for _, c := range res.Cross {
		fmt.Printf("cross-solver %s: %d queries replayed, agree=%d disagree=%d undecided=%d errors=%d in %.1fs %s\n", c.Solver, c.Queries, c.Agree, c.Disagree, c.Undecided, c.Errors, c.Seconds, c.Note)
	}
	fmt.Printf("violations=%d reached=%v schedules=%d\n", len(res.Viol), res.Reached, res.Schedules)
	for _, e := range res.EngineErrors {
		fmt.Println("ENGINE ERROR:", e)
	}
	nat := &Native{Root: l.Root, VsymSrc: l.VsymSrc, HFiles: l.HFiles, Extra: l.Extra}
	defer nat.Cleanup()
	kinds := groupViolations(res.Viol)
	os.MkdirAll(filepath.Join(verifRoot(), "replays", "dev"), 0755)
	for i, g := range kinds {
		v := g.best
		fmt.Printf("  KIND %6d  [%s] region=%q %s\n        e.g. choices=%v vars=%v\n", g.n, v.Kind, v.Region, cut(v.Msg, 300), v.Choices, v.Vars)
		if i < *nreplay {
			rf := filepath.Join(verifRoot(), "replays", "dev", fmt.Sprintf("%s_%d.json", *fnName, i))
			writeReplay(rf, "dev", rel, *fnName, v, o)
			verdict, detail := confirm(l, nat, rel, *fnName, v, rf, o)
			fmt.Printf("        replay %s: %s\n", rf, verdict)
			if !strings.HasPrefix(verdict, "CONFIRMED") {
				fmt.Println(indent(cut(detail, 1500)))
			}
		}
	}
	if *validate > 0 {
		ok, bad, skipped, msgs := validateSamples(l, nat, rel, *fnName, res, o)
		fmt.Printf("native differential validation: %d agree, %d disagree, %d skipped\n", ok, bad, skipped)
		for _, m := range msgs {
			fmt.Println("   ", m)
		}
	}
	fmt.Println("functions executed:", len(res.FnCount))
	if *showFns {
		for _, f := range sortedKeys(res.FnCount) {
			fmt.Printf("   %6d %s\n", res.FnCount[f], f)
		}
	}
}

type vgroup struct {
	key  string
	n    int
	best Violation
}

// groupViolations groups by (region, kind, message) and keeps the shortest counterexample of each group.
func groupViolations(viol []Violation) []vgroup {
	m := map[string]*vgroup{}
	for _, v := range viol {
		k := v.Region + "|" + v.Kind + "|" + v.Msg
		g := m[k]
		if g == nil {
			g = &vgroup{key: k, best: v}
			m[k] = g
		}
		g.n++
		if len(v.Decision) < len(g.best.Decision) {
			g.best = v
		}
	}
	var out []vgroup
	for _, g := range m {
		out = append(out, *g)
	}
	sort.Slice(out, func(i, j int) bool { return out[i].key < out[j].key })
	return out
}

func writeReplay(path, prop, rel, fn string, v Violation, o *Opts) {
	os.MkdirAll(filepath.Dir(path), 0755)
	b, _ := json.MarshalIndent(map[string]interface{}{
		"property": prop, "pkg": rel, "harness": fn, "kind": v.Kind, "msg": v.Msg, "region": v.Region,
		"vars": v.Vars, "ints": v.Ints, "choices": v.Choices, "decision": v.Decision, "thorough": o.Thorough,
		"crash": v.Crash, "crash_at": v.CrashAt, "crash_kind": v.CrashKind, "outs": v.Outs, "threads": v.Threads,
		"preempt": o.Preempt, "maxzeros": o.MaxZeros,
	}, "", " ")
	os.WriteFile(path, b, 0644)
}

func cut(s string, n int) string {
	if len(s) > n {
		return s[:n] + "..."
	}
	return s
}
func indent(s string) string { return "          " + strings.Replace(s, "\n", "\n          ", -1) }
