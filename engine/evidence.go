package main

import (
	"encoding/json"
	"os"
	"path/filepath"
	"sort"
)

type ObligationEvidence struct {
	Harness            string         `json:"harness"`
	Pkg                string         `json:"pkg"`
	What               string         `json:"what,omitempty"`
	Bounds             string         `json:"bounds,omitempty"`
	Paths              int            `json:"paths"`
	Decisions          int            `json:"decisions"`
	Queries            int            `json:"queries"`
	QSat               int            `json:"queries_sat"`
	QUnsat             int            `json:"queries_unsat"`
	QUnknown           int            `json:"queries_unknown"`
	SolverS            float64        `json:"solver_s"`
	WallS              float64        `json:"wall_s"`
	Steps              int            `json:"ssa_instructions_executed"`
	Asserts            int            `json:"assertions_checked"`
	Aborted            map[string]int `json:"paths_aborted,omitempty"`
	Exhausted          bool           `json:"exhausted"`
	Remaining          int            `json:"prefixes_unexplored"`
	Functions          int            `json:"functions_encoded"`
	Reached            []string       `json:"reach_labels_hit"`
	UnwindExceeded     int            `json:"unwind_exceeded"`
	SolverInconclusive int            `json:"solver_inconclusive"`
	Validated          int            `json:"paths_validated_natively"`
	ValidationSkipped  int            `json:"validation_skipped,omitempty"`
	Schedules          int            `json:"schedules_explored,omitempty"`
	PreemptionBound    int            `json:"preemption_bound"`
	TowerHeightBound   int            `json:"skiplist_tower_height_bound"`
	StepCap            int            `json:"step_cap,omitempty"`
	CRCAxiomInstances  int            `json:"crc_axiom_instances,omitempty"`
	DistinctPrograms   int            `json:"distinct_choice_vectors"`
	Unreplayed         int            `json:"violation_groups_not_replayed,omitempty"`
	Cross              []CrossResult  `json:"cross_solver,omitempty"`
}

type ViolationEvidence struct {
	Harness string            `json:"harness"`
	Kind    string            `json:"kind"`
	Msg     string            `json:"msg"`
	Region  string            `json:"region,omitempty"`
	Paths   int               `json:"paths"`
	Replay  string            `json:"replay"`
	Verdict string            `json:"native_verdict"`
	Class   string            `json:"class"`
	Choices []string          `json:"choices,omitempty"`
	Vars    map[string]uint64 `json:"model,omitempty"`
}

type LemmaEvidence struct {
	File         string   `json:"file"`
	Answers      []string `json:"answers"`
	OK           bool     `json:"discharged"`
	SolverS      float64  `json:"solver_s"`
	TableChecked bool     `json:"go_table_equals_bitwise_definition,omitempty"`
	Detail       string   `json:"detail,omitempty"`
}

type Coverage struct {
	Lemmas           []LemmaEvidence          `json:"lemmas,omitempty"`
	MethodSets       []map[string]interface{} `json:"method_set_guards,omitempty"`
	States           int                      `json:"states"`
	Transitions      int                      `json:"transitions"`
	TracesValidated  int                      `json:"traces_validated_against_impl"`
	Samples          []map[string]interface{} `json:"samples"`
	Exhaustive       bool                     `json:"exhaustive"`
	Explanation      string                   `json:"explanation,omitempty"`
	Queries          int                      `json:"queries"`
	QueriesUnsat     int                      `json:"queries_unsat"`
	QueriesSat       int                      `json:"queries_sat"`
	QueriesUnknown   int                      `json:"queries_unknown"`
	SolverS          float64                  `json:"solver_s"`
	Solver           string                   `json:"solver"`
	LoadS            float64                  `json:"ssa_load_build_s"`
	NativeBuildS     float64                  `json:"native_build_s"`
	UnwindExceeded   int                      `json:"unwind_exceeded"`
	Obligations      []ObligationEvidence     `json:"harnesses"`
	FunctionsEncoded map[string]int           `json:"functions_encoded"`
	Stubs            map[string]int           `json:"stubs_hit,omitempty"`
	Outside          []string                 `json:"outside_the_claim,omitempty"`
	Inconclusive     []string                 `json:"inconclusive,omitempty"`
	KnownFindings    []string                 `json:"known_findings_hit,omitempty"`
	ViolationsDetail []ViolationEvidence      `json:"violations_detail,omitempty"`
}

type Evidence struct {
	PropertyID  string   `json:"property_id"`
	Tier        string   `json:"tier"`
	Seed        int64    `json:"seed"`
	Level       string   `json:"level"`
	Coverage    Coverage `json:"coverage"`
	Assumptions []string `json:"assumptions"`
	WallS       float64  `json:"wall_s"`
	Violations  int      `json:"violations"`
}

// fillMinimal keeps the file schema-valid when nothing could be explored (the run then says so).
func (c *Coverage) fillMinimal() {
	if c.Samples == nil {
		c.Samples = []map[string]interface{}{}
	}
	// only kevo's own functions are listed by name; library code is summarised
	if len(c.FunctionsEncoded) > 0 {
		out := map[string]int{}
		lib := 0
		for k, n := range c.FunctionsEncoded {
			if containsKevo(k) {
				out[k] = n
			} else {
				lib++
			}
		}
		if lib > 0 {
			out["(library functions interpreted from source: count)"] = lib
		}
		c.FunctionsEncoded = out
	}
	ks := map[string]bool{}
	for _, k := range c.KnownFindings {
		ks[k] = true
	}
	c.KnownFindings = nil
	for k := range ks {
		c.KnownFindings = append(c.KnownFindings, k)
	}
	sort.Strings(c.KnownFindings)
}

func containsKevo(s string) bool {
	for i := 0; i+len("KevoDB/kevo") <= len(s); i++ {
		if s[i:i+len("KevoDB/kevo")] == "KevoDB/kevo" {
			return true
		}
	}
	return false
}

func (e *Evidence) write(path string) {
	os.MkdirAll(filepath.Dir(path), 0755)
	if e.Assumptions == nil {
		e.Assumptions = []string{}
	}
	e.WallS = round3(e.WallS)
	b, _ := json.MarshalIndent(e, "", " ")
	os.WriteFile(path, append(b, '\n'), 0644)
}
