package main

// installMore registers intrinsics added after the first engine version.
func installMore(m *Machine) {
}
