package main

import (
	"fmt"
	"go/token"
	"go/types"
	"math"
	"reflect"
	"regexp"
	"strconv"
	"strings"
)

// jsonBlob is a value that went through the encoding/json stub: Marshal turns a value into an opaque
// token text and remembers a deep copy; Unmarshal of exactly that text gives the copy back, anything else
// (a cut or altered text) is a syntax error. This is the "JSON round trip is the identity on values that
// marshal, and no strict prefix of an object's text parses" contract; encoding/json itself is
// reflection-driven and is not interpreted (stated in the evidence as a stub).
type jsonBlob struct {
	v Value
	t types.Type
}

var blobRe = regexp.MustCompile(`^\{"verif_json_blob":(\d+)\}$`)

func (r *Run) stub(name string) {
	if r.StubCount == nil {
		r.StubCount = map[string]int{}
	}
	r.StubCount[name]++
}

// deepCopy copies structs/arrays and follows pointers (fresh cells), so that the stored blob does not alias the
// live object; maps and slices of scalars are copied one level.
func deepCopy(v Value, seen map[*Value]*Value) Value {
	switch x := v.(type) {
	case Struct:
		c := make(Struct, len(x))
		for i := range x {
			c[i] = deepCopy(x[i], seen)
		}
		return c
	case Array:
		c := make(Array, len(x))
		for i := range x {
			c[i] = deepCopy(x[i], seen)
		}
		return c
	case Ptr:
		if x == nil {
			return x
		}
		if p, ok := seen[x]; ok {
			return Ptr(p)
		}
		cell := new(Value)
		seen[x] = cell
		*cell = deepCopy(*x, seen)
		return Ptr(cell)
	case Slice:
		if x.Nil {
			return x
		}
		c := make([]Value, len(x.S))
		for i := range x.S {
			c[i] = deepCopy(x.S[i], seen)
		}
		return Slice{S: c}
	case *Map:
		if x == nil {
			return x
		}
		m := &Map{}
		for i := range x.Keys {
			m.Keys = append(m.Keys, deepCopy(x.Keys[i], seen))
			m.Vals = append(m.Vals, deepCopy(x.Vals[i], seen))
		}
		return m
	}
	return v
}

// floatsMarshalable forks on NaN/Inf for every float64 reachable in v: encoding/json refuses those.
func (r *Run) floatsMarshalable(v Value, depth int) bool {
	if depth > 6 {
		return true
	}
	switch x := v.(type) {
	case float64:
		return !math.IsNaN(x) && !math.IsInf(x, 0)
	case FSym:
		nan := r.TT.mk("fp.isNaN", 0, 0, "", x.T)
		inf := r.TT.mk("fp.isInfinite", 0, 0, "", x.T)
		return !r.branch(Bool{T: r.TT.Or(nan, inf)})
	case Struct:
		for _, f := range x {
			if !r.floatsMarshalable(f, depth+1) {
				return false
			}
		}
	case Array:
		for _, f := range x {
			if !r.floatsMarshalable(f, depth+1) {
				return false
			}
		}
	case Ptr:
		if x != nil {
			return r.floatsMarshalable(*x, depth+1)
		}
	case Slice:
		for _, f := range x.S {
			if !r.floatsMarshalable(f, depth+1) {
				return false
			}
		}
	case Iface:
		return r.floatsMarshalable(x.V, depth+1)
	}
	return true
}

// jsonFieldName returns the name under which encoding/json stores field i of st ("" = not stored) and whether
// the field is left out when empty.
func jsonFieldName(st *types.Struct, i int) (string, bool) {
	f := st.Field(i)
	if !f.Exported() {
		return "", false
	}
	tag := reflect.StructTag(st.Tag(i)).Get("json")
	if tag == "-" {
		return "", false
	}
	name, opts, _ := strings.Cut(tag, ",")
	if name == "" {
		name = f.Name()
	}
	omit := false
	for _, o := range strings.Split(opts, ",") {
		if o == "omitempty" || o == "omitzero" {
			omit = true
		}
	}
	return name, omit
}

// jsonEmpty decides (forking on symbolic values) whether encoding/json's omitempty leaves v out.
func (r *Run) jsonEmpty(v Value) bool {
	switch x := v.(type) {
	case Num:
		if x.T == nil {
			return x.C == 0
		}
		return r.branch(r.numBinop(token.EQL, x, Num{W: x.W, Signed: x.Signed}).(Bool))
	case Bool:
		if x.T == nil {
			return !x.C
		}
		return !r.branch(x)
	case float64:
		return x == 0
	case FSym:
		return r.branch(Bool{T: r.TT.mk("fp.isZero", 0, 0, "", x.T)})
	case Str:
		return len(x) == 0
	case Slice:
		return len(x.S) == 0
	case *Map:
		return x == nil || len(x.Keys) == 0
	case Ptr:
		return x == nil
	case Iface:
		return x.T == nil
	}
	return false
}

// jsonMerge models Unmarshal(Marshal(src)) into *dst for a value of type t: a struct is merged field by field —
// a field reaches the destination only if the text holds it (exported, not tagged "-", not left out by omitempty,
// its name not shared with another field of the struct); everything else of the destination keeps what it held.
// Other kinds are replaced as a whole (the identity round trip of the opaque token).
func (r *Run) jsonMerge(dst *Value, src Value, t types.Type, depth int) {
	st, ok := t.Underlying().(*types.Struct)
	ds, ok2 := (*dst).(Struct)
	ss, ok3 := src.(Struct)
	if !ok || !ok2 || !ok3 || depth > 4 || len(ds) != st.NumFields() || len(ss) != st.NumFields() {
		*dst = src
		return
	}
	names := map[string]int{}
	for i := 0; i < st.NumFields(); i++ {
		if n, _ := jsonFieldName(st, i); n != "" && !st.Field(i).Embedded() {
			names[strings.ToLower(n)]++
		}
	}
	out := append(Struct{}, ds...)
	for i := 0; i < st.NumFields(); i++ {
		n, omit := jsonFieldName(st, i)
		if n == "" {
			continue
		}
		if !st.Field(i).Embedded() && names[strings.ToLower(n)] > 1 {
			continue // two fields under one name: encoding/json drops both
		}
		if omit && r.jsonEmpty(ss[i]) {
			continue
		}
		if _, isStruct := st.Field(i).Type().Underlying().(*types.Struct); isStruct {
			cell := out[i]
			r.jsonMerge(&cell, ss[i], st.Field(i).Type(), depth+1)
			out[i] = cell
			continue
		}
		out[i] = ss[i]
	}
	*dst = out
}

func installMore(m *Machine) {
	I := m.Intr
	marshal := func(r *Run, fr *Frame, a []Value) Value {
		r.stub("encoding/json.Marshal (opaque token; round trip = identity)")
		v := a[0].(Iface)
		if !r.floatsMarshalable(v.V, 0) {
			return Tuple{Slice{Nil: true}, r.newError("json: unsupported value: NaN or Inf")}
		}
		r.Blobs = append(r.Blobs, jsonBlob{v: deepCopy(v.V, map[*Value]*Value{}), t: v.T})
		txt := fmt.Sprintf(`{"verif_json_blob":%d}`, len(r.Blobs)-1)
		out := make([]Value, len(txt))
		for i := 0; i < len(txt); i++ {
			out[i] = Num{W: 8, C: uint64(txt[i])}
		}
		return Tuple{Slice{S: out}, nilErr()}
	}
	I["encoding/json.Marshal"] = marshal
	I["encoding/json.MarshalIndent"] = marshal
	I["encoding/json.Unmarshal"] = func(r *Run, fr *Frame, a []Value) Value {
		r.stub("encoding/json.Unmarshal (opaque token, merged into the destination field by field per struct tags; anything else is a syntax error)")
		data := a[0].(Slice).S
		dst := a[1].(Iface)
		bs := make([]byte, len(data))
		for i, b := range data {
			n := b.(Num)
			if n.T != nil {
				return r.newError("invalid character in JSON text (symbolic byte)")
			}
			bs[i] = byte(n.C)
		}
		mt := blobRe.FindSubmatch(bs)
		if mt == nil {
			return r.newError("unexpected end of JSON input")
		}
		id, _ := strconv.Atoi(string(mt[1]))
		if id >= len(r.Blobs) {
			return r.newError("invalid JSON token")
		}
		b := r.Blobs[id]
		p, ok := dst.V.(Ptr)
		if !ok || p == nil {
			return r.newError("json: Unmarshal(non-pointer)")
		}
		// the stored value was marshalled either as T or as *T
		pt, _ := dst.T.(*types.Pointer)
		var src Value
		switch {
		case pt != nil && types.Identical(b.t, dst.T):
			src = deepCopy(*(b.v.(Ptr)), map[*Value]*Value{})
		case pt != nil && types.Identical(b.t, pt.Elem()):
			src = deepCopy(b.v, map[*Value]*Value{})
		default:
			return r.newError("json: cannot unmarshal into Go value of a different type")
		}
		// field-wise: only what the text would hold reaches the destination (struct tags, omitempty, unexported)
		r.jsonMerge(p, src, pt.Elem(), 0)
		// a mutex inside the copy starts unlocked
		return nilErr()
	}
	// compression codecs: an opaque pair. Compress(x) = magic ++ x, Decompress(magic ++ x) = x, anything that does
	// not start with the codec's magic is "invalid compressed data" (kevo's payloads start with an operation byte
	// 1..3, never with a frame magic). The codecs' internals are outside the claim.
	zmagic := []byte{0x28, 0xB5, 0x2F, 0xFD}
	smagic := []byte{0xFF, 0x06, 0x00, 0x00}
	enc := func(magic []byte, inPlace bool) func(r *Run, src, dst []Value) Value {
		return func(r *Run, src, dst []Value) Value {
			r.stub("compression codec (opaque pair: Decompress(Compress(x)) = x)")
			// like the real codecs the result is written into the caller's buffer when it is large enough
			// (zstd: appended to dst; snappy: dst[:n] when len(dst) suffices), so that a caller who reuses a
			// buffer gets the aliasing the real library would give it
			payload := append([]Value{}, src...)
			var out []Value
			if inPlace {
				if len(dst) >= len(magic)+len(payload) {
					out = dst[:0:len(dst)]
				}
			} else {
				out = dst
			}
			for _, b := range magic {
				out = append(out, Num{W: 8, C: uint64(b)})
			}
			out = append(out, payload...)
			return Slice{S: out}
		}
	}
	dec := func(magic []byte, inPlace bool) func(r *Run, in, dst []Value) Value {
		return func(r *Run, in, dst []Value) Value {
			r.stub("compression codec (opaque pair: Decompress(Compress(x)) = x)")
			if len(in) < len(magic) {
				return Tuple{Slice{Nil: true}, r.newError("invalid compressed data: too short")}
			}
			for i, b := range magic {
				if !r.branch(r.numBinop(token.EQL, in[i].(Num), Num{W: 8, C: uint64(b)}).(Bool)) {
					return Tuple{Slice{Nil: true}, r.newError("invalid compressed data: bad magic")}
				}
			}
			payload := append([]Value{}, in[len(magic):]...)
			var out []Value
			if inPlace {
				if len(dst) >= len(payload) {
					out = dst[:0:len(dst)]
				}
			} else {
				out = dst
			}
			out = append(out, payload...)
			return Tuple{Slice{S: out}, nilErr()}
		}
	}
	sl := func(v Value) []Value {
		if s, ok := v.(Slice); ok {
			return s.S
		}
		return nil
	}
	ze, zd, se, sd := enc(zmagic, false), dec(zmagic, false), enc(smagic, true), dec(smagic, true)
	I["(*github.com/klauspost/compress/zstd.Encoder).EncodeAll"] = func(r *Run, fr *Frame, a []Value) Value { return ze(r, sl(a[1]), sl(a[2])) }
	I["(*github.com/klauspost/compress/zstd.Decoder).DecodeAll"] = func(r *Run, fr *Frame, a []Value) Value { return zd(r, sl(a[1]), sl(a[2])) }
	I["(*github.com/klauspost/compress/zstd.Encoder).Close"] = func(r *Run, fr *Frame, a []Value) Value { return nilErr() }
	I["(*github.com/klauspost/compress/zstd.Decoder).Close"] = func(r *Run, fr *Frame, a []Value) Value { return nil }
	I["github.com/klauspost/compress/snappy.Encode"] = func(r *Run, fr *Frame, a []Value) Value { return se(r, sl(a[1]), sl(a[0])) }
	I["github.com/klauspost/compress/snappy.Decode"] = func(r *Run, fr *Frame, a []Value) Value { return sd(r, sl(a[1]), sl(a[0])) }
	I["io.ReadAll"] = func(r *Run, fr *Frame, a []Value) Value {
		// only *os.File readers occur in kevo
		rd := a[0].(Iface)
		if p, ok := rd.V.(Ptr); ok {
			if hd := r.FS.Handles[p]; hd != nil {
				out := append([]Value{}, hd.F.Data[min(hd.Pos, len(hd.F.Data)):]...)
				hd.Pos = len(hd.F.Data)
				return Tuple{Slice{S: out}, nilErr()}
			}
		}
		panic("io.ReadAll on an unsupported reader")
	}
}

// installBinary: encoding/binary little-endian accessors as intrinsics. A value stored with PutUintN becomes the
// canonical bytes extract(8i+7, 8i, X); UintN over exactly those bytes gives X back syntactically, so that a
// checksum written by the code under test and read back compares equal without a solver query.
func installBinary(m *Machine) {
	I := m.Intr
	put := func(n int) func(r *Run, fr *Frame, a []Value) Value {
		return func(r *Run, fr *Frame, a []Value) Value {
			b := a[1].(Slice).S
			if len(b) < n {
				panic(targetPanic{Str(fmt.Sprintf("index out of range [%d] with length %d", n-1, len(b)))})
			}
			v := a[2].(Num)
			for i := 0; i < n; i++ {
				if v.T == nil {
					b[i] = Num{W: 8, C: (v.C >> (8 * uint(i))) & 0xff}
				} else {
					b[i] = Num{W: 8, T: r.TT.Extract(8*i+7, 8*i, v.T)}
				}
			}
			return nil
		}
	}
	get := func(n int) func(r *Run, fr *Frame, a []Value) Value {
		return func(r *Run, fr *Frame, a []Value) Value {
			b := a[1].(Slice).S
			if len(b) < n {
				panic(targetPanic{Str(fmt.Sprintf("index out of range [%d] with length %d", n-1, len(b)))})
			}
			w := 8 * n
			allConc := true
			var c uint64
			for i := 0; i < n; i++ {
				x := b[i].(Num)
				if x.T != nil {
					allConc = false
					break
				}
				c |= x.C << (8 * uint(i))
			}
			if allConc {
				return Num{W: w, C: c}
			}
			// the bytes of one term, in order?
			var src *Term
			ok := true
			for i := 0; i < n && ok; i++ {
				x := b[i].(Num)
				if x.T == nil {
					ok = false
					break
				}
				t := x.T
				want := fmt.Sprintf("(_ extract %d %d)", 8*i+7, 8*i)
				if t.op == want && t.args[0].w == w && (src == nil || src == t.args[0]) {
					src = t.args[0]
				} else {
					ok = false
				}
			}
			if ok && src != nil {
				return Num{W: w, T: src}
			}
			// general case: concatenation, most significant byte first
			var t *Term
			for i := n - 1; i >= 0; i-- {
				bt := r.numTerm(b[i].(Num))
				if t == nil {
					t = bt
				} else {
					t = r.TT.mk("concat", t.w+8, 0, "", t, bt)
				}
			}
			return Num{W: w, T: t}
		}
	}
	for _, n := range []int{2, 4, 8} {
		I[fmt.Sprintf("(encoding/binary.littleEndian).PutUint%d", 8*n)] = put(n)
		I[fmt.Sprintf("(encoding/binary.littleEndian).Uint%d", 8*n)] = get(n)
	}
}

// grpcStatus models google.golang.org/grpc/status values: status.Error/Errorf build an error carrying a code and a
// message, status.FromError/Code/Convert read it back. The real package builds protobuf messages (reflection, package
// state initialised by init functions that are never run here); nothing in kevo depends on more than code and message.
type grpcStatus struct {
	code uint64
	msg  string
}

func installGRPCStatus(m *Machine) {
	I := m.Intr
	// package-level math/rand draws: zero or not (kevo only tests "== 0")
	for _, n := range []string{"math/rand.Intn", "math/rand.Int63n", "math/rand.Int31n"} {
		I[n] = func(r *Run, fr *Frame, a []Value) Value {
			w := a[0].(Num)
			c := r.decide(2, func(i int) *Term { return nil })
			return Num{W: w.W, Signed: true, C: uint64(c)}
		}
	}
	const sp = "google.golang.org/grpc/status."
	mkErr := func(r *Run, code uint64, msg string) Value {
		if code == 0 {
			return nilErr()
		}
		return r.hostIface("grpcstatus", &grpcStatus{code: code, msg: msg})
	}
	I[sp+"Error"] = func(r *Run, fr *Frame, a []Value) Value {
		return mkErr(r, r.concretize(a[0].(Num), 0, 16), cstr(a[1]))
	}
	I[sp+"Errorf"] = func(r *Run, fr *Frame, a []Value) Value {
		s, _ := r.sprintf(a[1:])
		return mkErr(r, r.concretize(a[0].(Num), 0, 16), s)
	}
	statusOf := func(r *Run, e Iface) (*grpcStatus, bool) {
		for e.T != nil {
			if h, ok := e.V.(*HostObj); ok && h.Kind == "grpcstatus" {
				return h.Data.(*grpcStatus), true
			}
			ms := r.M.Prog.MethodSets.MethodSet(e.T)
			sel := ms.Lookup(nil, "Unwrap")
			if sel == nil {
				break
			}
			out := r.callFn(nil, r.M.Prog.MethodValue(sel), []Value{e.V}, nil)
			ne, ok := out.(Iface)
			if !ok {
				break
			}
			e = ne
		}
		return nil, false
	}
	stPtr := func(st *grpcStatus) Value {
		cell := new(Value)
		*cell = &HostObj{Kind: "grpcstatusval", Data: st}
		return Ptr(cell)
	}
	I[sp+"FromError"] = func(r *Run, fr *Frame, a []Value) Value {
		e := a[0].(Iface)
		if e.T == nil {
			return Tuple{Ptr(nil), Bool{C: true}}
		}
		if st, ok := statusOf(r, e); ok {
			return Tuple{stPtr(st), Bool{C: true}}
		}
		return Tuple{stPtr(&grpcStatus{code: 2, msg: "unknown"}), Bool{C: false}}
	}
	I[sp+"Convert"] = func(r *Run, fr *Frame, a []Value) Value {
		e := a[0].(Iface)
		if st, ok := statusOf(r, e); ok {
			return stPtr(st)
		}
		if e.T == nil {
			return Ptr(nil)
		}
		return stPtr(&grpcStatus{code: 2, msg: "unknown"})
	}
	I[sp+"Code"] = func(r *Run, fr *Frame, a []Value) Value {
		e := a[0].(Iface)
		if e.T == nil {
			return Num{W: 32, C: 0}
		}
		if st, ok := statusOf(r, e); ok {
			return Num{W: 32, C: st.code}
		}
		return Num{W: 32, C: 2}
	}
	get := func(v Value) *grpcStatus {
		p, _ := v.(Ptr)
		if p == nil {
			return &grpcStatus{}
		}
		return (*p).(*HostObj).Data.(*grpcStatus)
	}
	// status.Status is an alias of internal/status.Status: register the methods under both spellings
	for _, tp := range []string{"(*google.golang.org/grpc/status.Status).", "(*google.golang.org/grpc/internal/status.Status)."} {
		I[tp+"Code"] = func(r *Run, fr *Frame, a []Value) Value { return Num{W: 32, C: get(a[0]).code} }
		I[tp+"Message"] = func(r *Run, fr *Frame, a []Value) Value { return Str(get(a[0]).msg) }
		I[tp+"Err"] = func(r *Run, fr *Frame, a []Value) Value {
			st := get(a[0])
			return mkErr(r, st.code, st.msg)
		}
	}
}
