package main

import (
	"context"
	"encoding/json"
	"fmt"
	"os"
	"os/exec"
	"path/filepath"
	"sort"
	"strings"
	"time"
)

// Native builds, once per package and run, a test binary of the real package plus the harness files
// (go test -c -overlay), and runs harnesses natively with a replay file.
type Native struct {
	Root    string            // repository root
	VsymSrc string            // real path of vsym.go
	HFiles  map[string]string // virtual path -> real path (all harness files)
	Extra   map[string]string // additional overlay replacements (mutation testing)
	dir     string
	bins    map[string]string // pkgPath[/race] -> binary
	errs    map[string]string
	BuildS  float64
}

func (n *Native) tmp() string {
	if n.dir == "" {
		d, err := os.MkdirTemp("", "gosym-native")
		if err != nil {
			panic(err)
		}
		n.dir = d
		n.bins = map[string]string{}
		n.errs = map[string]string{}
	}
	return n.dir
}

func (n *Native) Cleanup() {
	if n.dir != "" {
		os.RemoveAll(n.dir)
	}
}

// binary returns the test binary for pkgRel (e.g. "pkg/memtable"), building it on first use.
func (n *Native) binary(pkgRel, pkgName string, harnesses []string, race bool) (string, error) {
	key := pkgRel
	if race {
		key += "/race"
	}
	n.tmp()
	if b, ok := n.bins[key]; ok {
		if b == "" {
			return "", fmt.Errorf("%s", n.errs[key])
		}
		return b, nil
	}
	t0 := time.Now()
	sub := filepath.Join(n.dir, strings.ReplaceAll(key, "/", "_"))
	os.MkdirAll(sub, 0755)
	sort.Strings(harnesses)
	var sb strings.Builder
	fmt.Fprintf(&sb, "//go:build verif\n\npackage %s\n\nimport (\n\t\"os\"\n\t\"testing\"\n\n\t\"github.com/KevoDB/kevo/pkg/zzverif/vsym\"\n)\n\n", pkgName)
	sb.WriteString("var verifHarnesses = map[string]func(){\n")
	for _, h := range harnesses {
		fmt.Fprintf(&sb, "\t%q: %s,\n", h, h)
	}
	sb.WriteString("}\n\n")
	sb.WriteString(`func TestVerifReplay(t *testing.T) {
	h := verifHarnesses[os.Getenv("VERIF_HARNESS")]
	if h == nil {
		t.Fatalf("VERIF-REPLAY-NOHARNESS %q", os.Getenv("VERIF_HARNESS"))
	}
	failed, skipped, p := vsym.Run(h)
	if p != nil {
		t.Fatalf("VERIF-REPLAY-PANIC %v", p)
	}
	if skipped {
		t.Fatalf("VERIF-REPLAY-SKIPPED")
	}
	if len(failed) > 0 {
		t.Fatalf("VERIF-REPLAY-FAILED %v", failed)
	}
}
`)
	tf := filepath.Join(sub, "replay_test.go")
	os.WriteFile(tf, []byte(sb.String()), 0644)
	repl := map[string]string{
		n.Root + "/pkg/zzverif/vsym/vsym.go":               n.VsymSrc,
		n.Root + "/" + pkgRel + "/zz_verif_replay_test.go": tf,
	}
	for k, v := range n.Extra {
		repl[k] = v
	}
	for k, v := range n.HFiles {
		repl[k] = v
	}
	ob, _ := json.Marshal(map[string]interface{}{"Replace": repl})
	of := filepath.Join(sub, "overlay.json")
	os.WriteFile(of, ob, 0644)
	bin := filepath.Join(sub, "replay.test")
	args := []string{"test", "-c", "-tags", "verif", "-vet=off", "-overlay", of, "-o", bin}
	if race {
		args = append(args, "-race")
	}
	args = append(args, "./"+pkgRel)
	cmd := exec.Command("go", args...)
	cmd.Dir = n.Root
	cmd.Env = append(os.Environ(), "GOFLAGS=-mod=mod")
	out, err := cmd.CombinedOutput()
	n.BuildS += time.Since(t0).Seconds()
	if err != nil {
		n.bins[key] = ""
		n.errs[key] = "native build failed: " + cut(string(out), 2000)
		return "", fmt.Errorf("%s", n.errs[key])
	}
	n.bins[key] = bin
	return bin, nil
}

type nativeOutcome struct {
	Out      string
	Failed   []string // assertion messages that failed natively
	Panicked bool
	PanicMsg string
	TimedOut bool
	Skipped  bool
	Race     bool
	Observed []string
	Err      string
}

// runNative executes one harness natively under a replay file.
func (n *Native) runNative(pkgRel, pkgName string, harnesses []string, fn, replayFile string, race bool, timeout time.Duration) nativeOutcome {
	bin, err := n.binary(pkgRel, pkgName, harnesses, race)
	if err != nil {
		return nativeOutcome{Err: err.Error()}
	}
	ctx, cancel := context.WithTimeout(context.Background(), timeout+5*time.Second)
	defer cancel()
	cmd := exec.CommandContext(ctx, bin, "-test.run", "^TestVerifReplay$", "-test.count=1", "-test.timeout", timeout.String(), "-test.v")
	cmd.Dir = filepath.Join(n.Root, pkgRel)
	if _, err := os.Stat(cmd.Dir); err != nil {
		cmd.Dir = n.Root
	}
	cmd.Env = append(os.Environ(), "VERIF_REPLAY="+replayFile, "VERIF_HARNESS="+fn)
	out, _ := cmd.CombinedOutput()
	s := string(out)
	o := nativeOutcome{Out: s}
	for _, l := range strings.Split(s, "\n") {
		l = strings.TrimSpace(l)
		switch {
		case strings.HasPrefix(l, "VERIF-ASSERT-FAILED: "):
			o.Failed = append(o.Failed, strings.TrimPrefix(l, "VERIF-ASSERT-FAILED: "))
		case strings.HasPrefix(l, "VERIF-OBSERVE "):
			o.Observed = append(o.Observed, strings.TrimPrefix(l, "VERIF-OBSERVE "))
		case strings.HasPrefix(l, "VERIF-PANIC: "):
			o.Panicked = true
			o.PanicMsg = strings.TrimPrefix(l, "VERIF-PANIC: ")
		case strings.HasPrefix(l, "panic: ") && !strings.Contains(l, "test timed out"):
			o.Panicked = true
			if o.PanicMsg == "" {
				o.PanicMsg = strings.TrimPrefix(l, "panic: ")
			}
		case strings.HasPrefix(l, "fatal error: "):
			o.Panicked = true
			if o.PanicMsg == "" {
				o.PanicMsg = l
			}
		case strings.Contains(l, "VERIF-REPLAY-SKIPPED"):
			o.Skipped = true
		case strings.Contains(l, "WARNING: DATA RACE"):
			o.Race = true
		}
	}
	if strings.Contains(s, "panic: test timed out") || ctx.Err() != nil {
		o.TimedOut = true
		if strings.Contains(s, "panic: test timed out") && len(o.Failed) == 0 {
			o.Panicked = false
		}
	}
	if strings.Contains(s, "all goroutines are asleep") {
		o.TimedOut = true
	}
	// a failed assertion in a goroutine panics with the failure value: that is the assertion, not a panic of kevo
	if len(o.Failed) > 0 && strings.Contains(o.PanicMsg, "vsym.failure") {
		o.Panicked = false
	}
	return o
}
