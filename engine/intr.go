package main

import (
	"fmt"
	_ "go/token"
	"go/types"
)

func vnum(v Value) Num { return v.(Num) }

func fieldV(p Value) *Value {
	s := (*p.(Ptr)).(Struct)
	return &s[len(s)-1]
}

func (r *Run) lexLess(a, b []Value) (lt, eq *Term) {
	// lexicographic compare over byte slices with concrete lengths
	tt := r.TT
	n := len(a)
	if len(b) < n {
		n = len(b)
	}
	// build from the end
	var ltT, eqT *Term
	if len(a) < len(b) {
		ltT, eqT = tt.True(), tt.False()
	} else if len(a) == len(b) {
		ltT, eqT = tt.False(), tt.True()
	} else {
		ltT, eqT = tt.False(), tt.False()
	}
	for i := n - 1; i >= 0; i-- {
		x, y := r.numTerm(a[i].(Num)), r.numTerm(b[i].(Num))
		e := tt.Eq(x, y)
		l := tt.Bin("bvult", x, y)
		if x.isConst() && y.isConst() {
			l = tt.BoolC(x.val < y.val)
		}
		ltT = tt.Or(l, tt.And(e, ltT))
		eqT = tt.And(e, eqT)
	}
	return ltT, eqT
}

func installIntrinsics(m *Machine) {
	nop := func(r *Run, fr *Frame, args []Value) Value { return nil }
	I := m.Intr
	_ = nop
	I["time.Now"] = func(r *Run, fr *Frame, a []Value) Value {
		return zero(r.M.Prog.ImportedPackage("time").Type("Time").Type())
	}
	I["(time.Time).UnixNano"] = func(r *Run, fr *Frame, a []Value) Value { return Num{W: 64, Signed: true, C: 12345} }
	I["math/rand.NewSource"] = func(r *Run, fr *Frame, a []Value) Value { return Iface{} }
	I["math/rand.New"] = func(r *Run, fr *Frame, a []Value) Value { return Ptr(nil) }
	I["(*math/rand.Rand).Int31n"] = func(r *Run, fr *Frame, a []Value) Value {
		// nondet in {0,1} bounded by harness-configured max tower height
		r.randCalls++
		if r.randZeros >= r.MaxZeros {
			r.randZeros = 0
			return Num{W: 32, Signed: true, C: 1}
		}
		c := r.decide(2, func(i int) *Term { return nil })
		if c == 0 {
			r.randZeros = 0
			return Num{W: 32, Signed: true, C: 1}
		}
		r.randZeros++
		return Num{W: 32, Signed: true, C: 0}
	}
	I["bytes.Compare"] = func(r *Run, fr *Frame, a []Value) Value {
		x, y := a[0].(Slice).S, a[1].(Slice).S
		lt, eq := r.lexLess(x, y)
		gt := r.TT.And(r.TT.Not(lt), r.TT.Not(eq))
		c := r.decide(3, func(i int) *Term { return []*Term{lt, eq, gt}[i] })
		return Num{W: 64, Signed: true, C: uint64(int64(c - 1))}
	}
	I["bytes.Equal"] = func(r *Run, fr *Frame, a []Value) Value {
		x, y := a[0].(Slice).S, a[1].(Slice).S
		if len(x) != len(y) {
			return Bool{C: false}
		}
		_, eq := r.lexLess(x, y)
		return termBool(eq)
	}
	// vsym
	const vp = "github.com/KevoDB/kevo/pkg/zzverif/vsym."
	I[vp+"Byte"] = func(r *Run, fr *Frame, a []Value) Value {
		return r.fresh(r.vname(string(a[0].(Str))), 8, false)
	}
	I[vp+"Uint64"] = func(r *Run, fr *Frame, a []Value) Value {
		return r.fresh(r.vname(string(a[0].(Str))), 64, false)
	}
	I[vp+"IntRange"] = func(r *Run, fr *Frame, a []Value) Value {
		lo, hi := int64(vnum(a[1]).C), int64(vnum(a[2]).C)
		c := r.decide(int(hi-lo+1), func(i int) *Term { return nil })
		v := int64(lo) + int64(c)
		r.Choices = append(r.Choices, fmt.Sprintf("%s=%d", a[0].(Str), v))
		r.Ints = append(r.Ints, int(v))
		return Num{W: 64, Signed: true, C: uint64(v)}
	}
	I[vp+"Bytes"] = func(r *Run, fr *Frame, a []Value) Value {
		n := int(vnum(a[1]).C)
		s := make([]Value, n)
		for i := range s {
			s[i] = r.fresh(r.vname(fmt.Sprintf("%s_%d", a[0].(Str), i)), 8, false)
		}
		return Slice{S: s}
	}
	I[vp+"Assume"] = func(r *Run, fr *Frame, a []Value) Value {
		b := a[0].(Bool)
		if b.T == nil {
			if !b.C {
				r.abort("assume false")
			}
			return nil
		}
		if r.S.CheckAssuming(b.T) != "sat" {
			r.abort("assume infeasible")
		}
		r.assume(b.T)
		return nil
	}
	I[vp+"Assert"] = func(r *Run, fr *Frame, a []Value) Value {
		b := a[0].(Bool)
		r.Asserts++
		if b.T == nil {
			if !b.C {
				r.violation(string(a[1].(Str)), r.TT.True())
				// natively the harness stops at its first failed assertion; so does this path
				r.abort("assertion failed on every input of this path")
			}
			return nil
		}
		neg := r.TT.Not(b.T)
		switch r.S.CheckAssuming(neg) {
		case "sat":
			r.violation(string(a[1].(Str)), neg)
			if r.S.CheckAssuming(b.T) != "sat" {
				r.abort("assertion failed on every input of this path")
			}
		case "unsat":
		default:
			r.abort("unknown at assert")
		}
		r.assume(b.T)
		return nil
	}
	I[vp+"EqBytes"] = I["bytes.Equal"]
	I[vp+"LessBytes"] = func(r *Run, fr *Frame, a []Value) Value {
		lt, _ := r.lexLess(a[0].(Slice).S, a[1].(Slice).S)
		return termBool(lt)
	}
	I[vp+"Ite"] = func(r *Run, fr *Frame, a []Value) Value {
		c := a[0].(Bool)
		x, y := a[1].(Num), a[2].(Num)
		if c.T == nil {
			if c.C {
				return x
			}
			return y
		}
		return Num{W: x.W, Signed: x.Signed, T: r.TT.Ite(c.T, r.numTerm(x), r.numTerm(y))}
	}
	I[vp+"And"] = func(r *Run, fr *Frame, a []Value) Value {
		return termBool(r.TT.And(r.boolTerm(a[0].(Bool)), r.boolTerm(a[1].(Bool))))
	}
	I[vp+"Or"] = func(r *Run, fr *Frame, a []Value) Value {
		return termBool(r.TT.Or(r.boolTerm(a[0].(Bool)), r.boolTerm(a[1].(Bool))))
	}
	I[vp+"Not"] = func(r *Run, fr *Frame, a []Value) Value {
		return termBool(r.TT.Not(r.boolTerm(a[0].(Bool))))
	}
	I[vp+"Implies"] = func(r *Run, fr *Frame, a []Value) Value {
		return termBool(r.TT.Or(r.TT.Not(r.boolTerm(a[0].(Bool))), r.boolTerm(a[1].(Bool))))
	}
	I[vp+"CrashRegion"] = func(r *Run, fr *Frame, a []Value) Value {
		r.FS.outs = nil
		if len(a) > 2 {
			for _, p := range a[2].(Slice).S {
				r.FS.outs = append(r.FS.outs, p.(Ptr))
			}
		}
		r.FS.Armed = true
		r.FS.Mode = int(a[0].(Num).C)
		crashed := false
		func() {
			defer func() {
				if x := recover(); x != nil {
					if _, ok := x.(crashSignal); ok {
						crashed = true
						return
					}
					panic(x)
				}
			}()
			r.call(fr, a[1], nil, 0)
			// the process may also die after the last step of the region, before anything further is synced
			r.crashPoint("end-of-region", nil, nil)
		}()
		r.FS.Armed = false
		return Bool{C: crashed}
	}
	I[vp+"Durable"] = func(r *Run, fr *Frame, a []Value) Value {
		for _, f := range r.FS.Files {
			f.Durable = len(f.Data)
		}
		return nil
	}
	I[vp+"CrashKind"] = func(r *Run, fr *Frame, a []Value) Value { return num(r.FS.CrashKind) }
	I[vp+"Float64"] = func(r *Run, fr *Frame, a []Value) Value {
		n := r.fresh(r.vname(string(a[0].(Str))), 64, false)
		return FSym{T: r.TT.mk("(_ to_fp 11 53)", -64, 0, "", n.T)}
	}
	I[vp+"Dir"] = func(r *Run, fr *Frame, a []Value) Value { return Str("/db") }
	I[vp+"Observe"] = func(r *Run, fr *Frame, a []Value) Value {
		r.observe(string(a[0].(Str)), a[1])
		return nil
	}
	I[vp+"Thorough"] = func(r *Run, fr *Frame, a []Value) Value { return Bool{C: r.Opts != nil && r.Opts.Thorough} }
	I[vp+"Region"] = func(r *Run, fr *Frame, a []Value) Value {
		name := string(a[0].(Str))
		if _, ok := r.Regions[name]; !ok {
			r.RegionOrder = append(r.RegionOrder, name)
		}
		r.Regions[name] = r.boolTerm(a[1].(Bool))
		return nil
	}
	I[vp+"Symbolic"] = func(r *Run, fr *Frame, a []Value) Value { return Bool{C: true} }
	I[vp+"Bool"] = func(r *Run, fr *Frame, a []Value) Value {
		n := r.fresh(r.vname(string(a[0].(Str))), 8, false)
		return termBool(r.TT.Not(r.TT.Eq(n.T, r.TT.BV(8, 0))))
	}
	I[vp+"Reach"] = func(r *Run, fr *Frame, a []Value) Value { r.Reached[string(a[0].(Str))] = true; return nil }
	_ = types.Typ
}

func (r *Run) vname(base string) string {
	n := r.vsymN[base]
	r.vsymN[base] = n + 1
	return fmt.Sprintf("%s__%d", base, n)
}
