//go:build verif

package memtable

import (
	"errors"

	"github.com/KevoDB/kevo/pkg/zzverif/vsym"
)

func litRecover(i int, a []int) (res int, err error) {
	defer func() {
		if x := recover(); x != nil {
			err = errors.New("recovered")
			res = -1
		}
	}()
	return a[i], nil
}

func VerifLitmus() {
	a := []int{1, 2, 3}
	i := vsym.IntRange("i", 0, 4)
	r, err := litRecover(i, a)
	if i < 3 {
		vsym.Assert(err == nil && r == a[i], "in range")
	} else {
		vsym.Assert(err != nil && r == -1, "recovered value")
	}
	// symbolic index
	j := int(vsym.Byte("j"))
	r2, err2 := litRecover(j, a)
	vsym.Assert((j < 3) == (err2 == nil), "symbolic index recover")
	if err2 == nil {
		vsym.Assert(r2 == j+1, "symbolic index value")
	}
	vsym.Reach("done")
}
