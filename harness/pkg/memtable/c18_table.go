//go:build verif

package memtable

import (
	"sync"

	"github.com/KevoDB/kevo/pkg/config"
	"github.com/KevoDB/kevo/pkg/wal"
	"github.com/KevoDB/kevo/pkg/zzverif/vsym"
)

type c18Op struct {
	k   []byte
	v   []byte
	del bool
	seq uint64
}

func c18Apply(m *MemTable, n int) []c18Op {
	var ops []c18Op
	for i := 0; i < n; i++ {
		o := c18Op{k: vsym.Bytes("k", 1), seq: vsym.Uint64("s")}
		vsym.Assume(o.seq < wal.MaxSequenceNumber) // the log never hands out larger numbers
		if vsym.IntRange("del", 0, 1) == 1 {
			o.del = true
			m.Delete(o.k, o.seq)
		} else {
			o.v = vsym.Bytes("v", 1)
			m.Put(o.k, o.v, o.seq)
		}
		ops = append(ops, o)
	}
	return ops
}

// c18Get checks Get(q) against the operations: an entry of maximal sequence number for q decides.
func c18Get(m *MemTable, ops []c18Op, q []byte) {
	got, found := m.Get(q)
	present := false
	for _, o := range ops {
		present = vsym.Or(present, vsym.EqBytes(o.k, q))
	}
	vsym.Observe("found", found)
	if !found {
		vsym.Assert(vsym.Not(present), "Get does not find a key that was inserted")
		return
	}
	vsym.Assert(present, "Get finds a key that was never inserted")
	// the result must be explained by some operation on q whose sequence number is maximal among those on q
	ok := false
	for _, o := range ops {
		isMax := true
		for _, p := range ops {
			isMax = vsym.And(isMax, vsym.Implies(vsym.EqBytes(p.k, q), p.seq <= o.seq))
		}
		var same bool
		if o.del {
			same = got == nil
		} else {
			same = vsym.And(got != nil, vsym.EqBytes(got, o.v))
		}
		ok = vsym.Or(ok, vsym.And(vsym.EqBytes(o.k, q), vsym.And(isMax, same)))
	}
	vsym.Assert(ok, "Get does not return the entry with the highest sequence number (value or deletion marker)")
}

// VerifC18_TableGetIterate: <=3 puts/deletes with arbitrary (tied, non-monotone) sequence numbers through MemTable;
// Get(q) returns an entry of maximal sequence number (found-but-deleted for a marker); iteration is ascending by
// key, newer versions of a key first, every inserted entry exactly once; an immutable table ignores writes.
func VerifC18_TableGetIterate() {
	m := NewMemTable()
	mode := vsym.IntRange("mode", 0, 2)
	N := 2
	if vsym.Thorough() {
		N = 3
	}
	n := vsym.IntRange("n", 1, N)
	ops := c18Apply(m, n)
	switch mode {
	case 0:
		c18Get(m, ops, vsym.Bytes("q", 1))
	case 1:
		it := m.NewIterator()
		cnt := 0
		var pk []byte
		var ps uint64
		for it.SeekToFirst(); it.Valid(); it.Next() {
			k, s := append([]byte(nil), it.Key()...), it.SequenceNumber()
			if cnt > 0 {
				vsym.Assert(vsym.Or(vsym.LessBytes(pk, k), vsym.And(vsym.EqBytes(pk, k), ps >= s)), "iteration order: keys ascending, newer versions of a key first")
			}
			// the yielded entry is one of the inserted ones
			any := false
			for _, o := range ops {
				any = vsym.Or(any, vsym.And(vsym.EqBytes(o.k, k), vsym.And(o.seq == s, o.del == it.IsTombstone())))
			}
			vsym.Assert(any, "iteration yields an entry that was not inserted")
			pk, ps = k, s
			cnt++
			vsym.Assert(cnt <= n, "iteration yields more entries than were inserted")
		}
		vsym.Assert(cnt == n, "iteration does not yield every inserted entry exactly once")
	case 2:
		q := vsym.Bytes("q", 1)
		m.SetImmutable()
		before, bf := m.Get(q)
		m.Put(vsym.Bytes("k", 1), vsym.Bytes("v", 1), vsym.Uint64("s"))
		m.Delete(vsym.Bytes("k", 1), vsym.Uint64("s"))
		after, af := m.Get(q)
		vsym.Assert(bf == af && vsym.EqBytes(before, after) && (before == nil) == (after == nil), "an immutable table changed")
		c18Get(m, ops, q)
	}
	vsym.Reach("done")
}

// VerifC18_PoolNewestFirst: writes spread over the active and switched (immutable) tables of a MemTablePool;
// Get returns the newest table's version.
func VerifC18_PoolNewestFirst() {
	cfg := config.NewDefaultConfig("/db")
	p := NewMemTablePool(cfg)
	k := vsym.Bytes("k", 1)
	var last []byte
	lastDel, any := false, false
	seq := uint64(1)
	n := vsym.IntRange("n", 1, 4)
	for i := 0; i < n; i++ {
		switch vsym.IntRange("op", 0, 2) {
		case 0:
			v := vsym.Bytes("v", 1)
			p.Put(k, v, seq)
			last, lastDel, any = v, false, true
			seq++
		case 1:
			p.Delete(k, seq)
			lastDel, any = true, true
			seq++
		case 2:
			// a reader (a scan, a flush) that took the list of tables before the switch keeps looking at the same
			// tables afterwards: the list it was handed is its own
			before := p.GetMemTables()
			saved := append([]*MemTable(nil), before...)
			sealed := p.SwitchToNewMemTable()
			vsym.Assert(len(before) == len(saved), "a table list handed out earlier changed its length at a switch")
			for j := range saved {
				vsym.Assert(before[j] == saved[j], "a table list handed out before a switch shows other tables after it (a reader loses the oldest table)")
			}
			vsym.Assert(len(saved) == 0 || sealed == saved[0], "the switch sealed another table than the active one")
			after := p.GetMemTables()
			vsym.Assert(len(after) == len(saved)+1 && after[0] != sealed, "after a switch the list does not start with a new active table followed by the old ones")
			for j := range saved {
				vsym.Assert(after[j+1] == saved[j], "after a switch the older tables are not listed newest first behind the new active one")
			}
		}
	}
	got, found := p.Get(k)
	vsym.Assert(found == any, "pool Get presence differs from the write history")
	if found && any {
		if lastDel {
			vsym.Assert(got == nil, "pool Get returns a value although the latest write is a delete")
		} else {
			vsym.Assert(got != nil && vsym.EqBytes(got, last), "pool Get does not return the latest value")
		}
	}
	vsym.Reach("done")
}

// VerifC18_ReaderVsInsert: through the MemTable API, one writer Puts into a table of <=2 entries while one reader
// runs Get, a full iteration, or Seek(t)+Next*. The reader terminates, sees a sorted sequence, sees everything
// inserted before it started, nothing that was never inserted, and Seek never lands below its target.
func VerifC18_ReaderVsInsert() {
	m := NewMemTable()
	pre := vsym.IntRange("pre", 0, 2)
	var ks [][]byte
	for i := 0; i < pre; i++ {
		k := vsym.Bytes("k", 1)
		m.Put(k, []byte{1}, uint64(i+1))
		ks = append(ks, k)
	}
	nk := vsym.Bytes("nk", 1)
	var wg sync.WaitGroup
	wg.Add(2)
	mode := vsym.IntRange("mode", 0, 2)
	// the reader's iterator may exist before the writer starts (a long scan meets a later write): then a single
	// preemption of the writer, in the middle of its insert, is enough to put the reader there
	var it0 *Iterator
	if mode != 0 && vsym.IntRange("iteratorFirst", 0, 1) == 1 {
		it0 = m.NewIterator()
	}
	go func() {
		defer wg.Done()
		m.Put(nk, []byte{2}, uint64(pre+1))
	}()
	go func() {
		defer wg.Done()
		switch mode {
		case 0:
			q := vsym.Bytes("q", 1)
			v, found := m.Get(q)
			old := false
			for i := range ks {
				old = vsym.Or(old, vsym.EqBytes(ks[i], q))
			}
			if !found {
				vsym.Assert(vsym.Not(old), "concurrent Get misses a key inserted before it started")
			} else {
				vsym.Assert(vsym.Or(old, vsym.EqBytes(nk, q)), "concurrent Get finds a key that was never inserted")
				vsym.Assert(len(v) == 1, "concurrent Get returns a malformed value")
			}
		case 1:
			it := it0
			if it == nil {
				it = m.NewIterator()
			}
			cnt, oldSeen := 0, 0
			var pk []byte
			var ps uint64
			for it.SeekToFirst(); it.Valid(); it.Next() {
				k, s := it.Key(), it.SequenceNumber()
				if cnt > 0 {
					vsym.Assert(vsym.Or(vsym.LessBytes(pk, k), vsym.And(vsym.EqBytes(pk, k), ps >= s)), "concurrent iteration is not sorted")
				}
				if it.Value()[0] == 1 {
					oldSeen++
				}
				pk, ps = append([]byte(nil), k...), s
				cnt++
				vsym.Assert(cnt <= pre+1, "concurrent iteration yields too many entries")
			}
			vsym.Assert(oldSeen == pre, "concurrent iteration misses an entry inserted before it started")
		case 2:
			t := vsym.Bytes("t", 1)
			it := it0
			if it == nil {
				it = m.NewIterator()
			}
			it.Seek(t)
			seen := 0
			for ; it.Valid(); it.Next() {
				vsym.Assert(vsym.Not(vsym.LessBytes(it.Key(), t)), "concurrent Seek(t)/Next yields a key below t")
				if it.Value()[0] == 1 {
					seen++
				}
				vsym.Assert(seen <= pre, "concurrent Seek/Next yields too many entries")
			}
			// every old key >= t must have been seen
			want := 0
			for i := range ks {
				want += vsym.Ite(vsym.Not(vsym.LessBytes(ks[i], t)), 1, 0)
			}
			vsym.Assert(seen == want, "concurrent Seek/Next misses a key >= t inserted before it started")
		}
	}()
	wg.Wait()
	vsym.Reach("done")
}
