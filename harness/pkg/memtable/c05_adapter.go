//go:build verif

package memtable

import "github.com/KevoDB/kevo/pkg/zzverif/vsym"

// VerifC05_MemtableAdapter: the iterator the engine's scans use over one memtable (IteratorAdapter), after <=3 puts /
// deletes over two keys with increasing sequence numbers (so a key has several versions in the table):
// SeekToLast lands on the newest version of the greatest key; Seek(t) on the newest version of the smallest
// key >= t; forward iteration yields every version, keys ascending, newer versions first.
func VerifC05_MemtableAdapter() {
	m := NewMemTable()
	K := [2][]byte{vsym.Bytes("K0", 1), vsym.Bytes("K1", 1)}
	vsym.Assume(vsym.LessBytes(K[0], K[1]))
	var newest [2]int // index+1 of the newest op on the key, 0 = none
	type op struct {
		ki  int
		del bool
		v   []byte
	}
	var ops []op
	n := vsym.IntRange("n", 1, 3)
	for i := 0; i < n; i++ {
		o := op{ki: vsym.IntRange("ki", 0, 1), del: vsym.IntRange("del", 0, 1) == 1}
		if o.del {
			m.Delete(K[o.ki], uint64(i+1))
		} else {
			o.v = vsym.Bytes("v", 1)
			m.Put(K[o.ki], o.v, uint64(i+1))
		}
		ops = append(ops, o)
		newest[o.ki] = i + 1
	}
	expect := func(a *IteratorAdapter, ki int, what string) {
		o := ops[newest[ki]-1]
		vsym.Assert(a.Valid(), what+": iterator invalid although an entry qualifies")
		vsym.Assert(vsym.EqBytes(a.Key(), K[ki]), what+": wrong key")
		vsym.Assert(a.SequenceNumber() == uint64(newest[ki]), what+": positioned on an older version of the key")
		vsym.Assert(a.IsTombstone() == o.del, what+": deletion flag of an older version")
		if !o.del {
			vsym.Assert(vsym.EqBytes(a.Value(), o.v), what+": value of an older version")
		}
	}
	a := NewIteratorAdapter(m.NewIterator())
	switch vsym.IntRange("mode", 0, 3) {
	case 3:
		// the iterator has been used before: it stands wherever 0..3 steps from the first entry left it (possibly on
		// an older version of a key, or past the end) when Seek(t) is called; the result is that of a fresh Seek
		a.SeekToFirst()
		steps := vsym.IntRange("steps", 0, 3)
		for j := 0; j < steps && a.Valid(); j++ {
			a.Next()
		}
		t := vsym.Bytes("t", 1)
		ok := a.Seek(t)
		if newest[0] != 0 && !vsym.LessBytes(K[0], t) {
			vsym.Assert(ok, "Seek on a used iterator reports nothing although a key >= t exists")
			expect(a, 0, "Seek on a used iterator")
		} else if newest[1] != 0 && !vsym.LessBytes(K[1], t) {
			vsym.Assert(ok, "Seek on a used iterator reports nothing although a key >= t exists")
			expect(a, 1, "Seek on a used iterator")
		} else {
			vsym.Assert(!ok && !a.Valid(), "Seek past every key must be invalid (used iterator)")
		}
	case 0:
		a.SeekToLast()
		if newest[1] != 0 {
			expect(a, 1, "SeekToLast")
		} else {
			expect(a, 0, "SeekToLast")
		}
	case 1:
		t := vsym.Bytes("t", 1)
		ok := a.Seek(t)
		// smallest key >= t among the keys present
		if newest[0] != 0 && !vsym.LessBytes(K[0], t) {
			vsym.Assert(ok, "Seek reports nothing although a key >= t exists")
			expect(a, 0, "Seek")
		} else if newest[1] != 0 && !vsym.LessBytes(K[1], t) {
			vsym.Assert(ok, "Seek reports nothing although a key >= t exists")
			expect(a, 1, "Seek")
		} else {
			vsym.Assert(!ok && !a.Valid(), "Seek past every key must be invalid")
		}
	case 2:
		cnt := 0
		prevK, prevS := -1, uint64(0)
		for a.SeekToFirst(); a.Valid(); a.Next() {
			ki := 0
			if vsym.EqBytes(a.Key(), K[1]) {
				ki = 1
			} else {
				vsym.Assert(vsym.EqBytes(a.Key(), K[0]), "iteration yields a key that was never written")
			}
			s := a.SequenceNumber()
			vsym.Assert(s >= 1 && int(s) <= n && ops[s-1].ki == ki, "iteration yields a version that was never written")
			if cnt > 0 {
				vsym.Assert(ki > prevK || (ki == prevK && s < prevS), "iteration order: keys ascending, newer versions first, nothing twice")
			}
			prevK, prevS = ki, s
			cnt++
			vsym.Assert(cnt <= n, "iteration yields too many entries")
		}
		vsym.Assert(cnt == n, "iteration does not yield every version")
	}
	vsym.Reach("done")
}

// VerifC05_MemtableScanSurvivesWrites: a scan over the active memtable that is interleaved, operation by operation,
// with another client's writes (new keys, new versions or deletes of old keys, placed anywhere relative to the scan
// position). The scan stays strictly ascending per (key, version), never yields an entry written after it started,
// and yields every entry that existed before it started.
func VerifC05_MemtableScanSurvivesWrites() {
	m := NewMemTable()
	pre := vsym.IntRange("pre", 1, 3)
	var ks [][]byte
	for i := 0; i < pre; i++ {
		k := vsym.Bytes("k", 1)
		if i > 0 {
			vsym.Assume(vsym.LessBytes(ks[i-1], k))
		}
		m.Put(k, []byte{1}, uint64(i+1))
		ks = append(ks, k)
	}
	seq := uint64(pre)
	write := func() {
		seq++
		k := vsym.Bytes("w", 1)
		if vsym.IntRange("wdel", 0, 1) == 1 {
			m.Delete(k, seq)
		} else {
			m.Put(k, []byte{2}, seq)
		}
	}
	it := NewIteratorAdapter(m.NewIterator())
	writes := 0
	maybeWrite := func() {
		if writes < 2 && vsym.IntRange("write", 0, 1) == 1 {
			write()
			writes++
		}
	}
	maybeWrite()
	seen, cnt := 0, 0
	var pk []byte
	var ps uint64
	it.SeekToFirst()
	for it.Valid() {
		k, sq := append([]byte(nil), it.Key()...), it.SequenceNumber()
		if cnt > 0 {
			vsym.Assert(vsym.Or(vsym.LessBytes(pk, k), vsym.And(vsym.EqBytes(pk, k), ps > sq)), "a scan interleaved with writes is not strictly ascending (key, then newer version first) or yields an entry twice")
		}
		if sq <= uint64(pre) {
			// an entry that existed before the scan started: they must all come, in order
			vsym.Assert(seen < pre, "a scan yields more old entries than existed")
			if seen < pre {
				vsym.Assert(vsym.EqBytes(k, ks[seen]) && sq == uint64(seen+1), "a scan interleaved with writes skips or reorders entries that existed before it started")
			}
			seen++
		}
		pk, ps = k, sq
		cnt++
		vsym.Assert(cnt <= pre+2, "a scan yields more entries than were ever written")
		maybeWrite()
		it.Next()
	}
	vsym.Assert(seen == pre, "a scan interleaved with writes misses an entry that existed before it started")
	vsym.Reach("done")
}
