//go:build verif

package memtable

import "github.com/KevoDB/kevo/pkg/zzverif/vsym"

// VerifSpike: after n inserts with arbitrary keys/seqs, Find(q) returns an entry of q with maximal seq, or nil iff absent.
func VerifC18_FindHighestSeq() {
	sl := NewSkipList()
	n := vsym.IntRange("n", 1, 3)
	var ks [4][]byte
	var seq [4]uint64
	for i := 0; i < n; i++ {
		ks[i] = vsym.Bytes("k", 1)
		seq[i] = vsym.Uint64("s")
		sl.Insert(newEntry(ks[i], vsym.Bytes("v", 1), TypeValue, seq[i]))
	}
	q := vsym.Bytes("q", 1)
	got := sl.Find(q)
	present := false
	for i := 0; i < n; i++ {
		present = vsym.Or(present, vsym.EqBytes(ks[i], q))
	}
	if got == nil {
		vsym.Assert(vsym.Not(present), "Find returned nil for a present key")
	} else {
		vsym.Assert(vsym.EqBytes(got.key, q), "Find returned another key")
		ok := true
		for i := 0; i < n; i++ {
			ok = vsym.And(ok, vsym.Implies(vsym.EqBytes(ks[i], q), seq[i] <= got.seqNum))
		}
		vsym.Assert(ok, "Find did not return the highest sequence number")
	}
	vsym.Reach("done")
}
