//go:build verif

package replication

import (
	"context"

	"github.com/KevoDB/kevo/pkg/config"
	"github.com/KevoDB/kevo/pkg/engine"
	"github.com/KevoDB/kevo/pkg/engine/storage"
	"github.com/KevoDB/kevo/pkg/stats"
	"github.com/KevoDB/kevo/pkg/wal"
	"github.com/KevoDB/kevo/pkg/zzverif/vsym"
	proto "github.com/KevoDB/kevo/proto/kevo/replication"
	"google.golang.org/grpc"
)

// linkClient is the replica's view of the primary over an ideal link: a retransmission request is handed to the
// primary's own resend path at once.
type linkClient struct {
	proto.WALReplicationServiceClient
	p       *Primary
	session *ReplicaSession
	nacks   int
}

func (c *linkClient) NegativeAcknowledge(ctx context.Context, in *proto.Nack, opts ...grpc.CallOption) (*proto.NackResponse, error) {
	c.nacks++
	if err := c.p.resendEntries(c.session, in.MissingFromSequence); err != nil {
		return &proto.NackResponse{Success: false, Message: err.Error()}, nil
	}
	return &proto.NackResponse{Success: true}, nil
}

// VerifC14_DataPathConverges (reduced form of C14: the data path under an ideal link, no clocks): a primary
// (storage manager + log + the real Primary as log observer) executes a program of puts, deletes, a two-entry
// transaction batch and a flush (which rotates the log); a replica session joins before, between or after the
// writes and is served by the real initial-send, push, poll and resend paths into a recording stream; the
// recorded messages are fed in order to a real Replica applying through EngineApplier into a second engine,
// acknowledging as it goes; then the link is drained (<=3 poll rounds). Afterwards the replica reads like the
// primary for a symbolic probe key.
func VerifC14_DataPathConverges() {
	pcfg := config.NewDefaultConfig(vsym.Dir() + "/primary")
	// the primary's own tuning must not decide whether replicas converge: defaults; a log that is not forced to
	// disk at every write (what it hands to replicas must not depend on that); a batch budget of 1 KB with values
	// that alone exceed it
	variant := vsym.IntRange("primaryTuning", 0, 2)
	if variant == 1 {
		pcfg.WALSyncMode = config.SyncNone
	}
	sm, err := storage.NewManager(pcfg, stats.NewAtomicCollector())
	vsym.Assert(err == nil, "primary NewManager failed")
	pc := DefaultPrimaryConfig()
	pc.EnableCompression = false
	pc.CompressionCodec = proto.CompressionCodec_NONE
	if variant == 2 {
		pc.MaxBatchSizeKB = 1
	}
	p, err := NewPrimary(sm.GetWAL(), pc)
	vsym.Assert(err == nil, "NewPrimary failed")
	value := func() []byte {
		if variant != 2 {
			return vsym.Bytes("v", 1)
		}
		b := make([]byte, 1100)
		b[0], b[len(b)-1] = vsym.Byte("vb"), vsym.Byte("vb")
		return b
	}
	re, err := engine.NewEngineFacade(vsym.Dir() + "/replica")
	vsym.Assert(err == nil, "replica engine open failed")
	// the replica's own tuning must not decide whether it converges: "maximum batch size to process at once" at its
	// default or far below what the primary puts into one message
	rcfg := DefaultReplicaConfig()
	if vsym.IntRange("replicaBatchLimit", 0, 1) == 1 {
		rcfg.MaxBatchSize = 16
	}
	rep, err := NewReplica(0, NewEngineApplier(re), rcfg)
	vsym.Assert(err == nil, "NewReplica failed")
	stream := &fakeStream{}
	session := c15Session("r1", stream)
	session.StartSequence = 0
	rep.client = &linkClient{p: p, session: session}
	delivered := 0
	deliver := func() {
		for delivered < len(stream.sent) {
			resp := stream.sent[delivered]
			delivered++
			if len(resp.Entries) == 0 {
				continue // heartbeat
			}
			rep.processEntriesWithoutStateTransitions(resp)
			p.updateSessionAck(session.ID, rep.GetLastAppliedSequence())
		}
	}
	K := [2][]byte{vsym.Bytes("K0", 1), vsym.Bytes("K1", 1)}
	vsym.Assume(vsym.LessBytes(K[0], K[1]))
	N := 2
	if vsym.Thorough() {
		N = 3
	}
	n := vsym.IntRange("n", 1, N)
	joinAt := vsym.IntRange("join", 0, n)
	// Recorded findings (regions of this harness' program space): entries of a transaction share one sequence number,
	// which the replica's strict "+1" check refuses for ever; and after a flush the primary still observes and polls
	// the closed log object, so nothing written afterwards reaches a replica (a replica joining then is refused).
	usedTx, usedFlush := false, false
	join := func() {
		// what the StreamWAL handler does for a new stream: the replica asks for everything after what it has
		session.StartSequence = rep.GetLastAppliedSequence() + 1
		p.registerReplicaSession(session)
		if session.StartSequence > 0 {
			vsym.Assert(p.sendInitialEntries(session) == nil, "sendInitialEntries failed")
		}
	}
	for i := 0; i < n; i++ {
		if i == joinAt {
			join()
		}
		switch vsym.IntRange("op", 0, 3) {
		case 0:
			vsym.Assert(sm.Put(K[vsym.IntRange("ki", 0, 1)], value()) == nil, "Put failed")
		case 1:
			vsym.Assert(sm.Delete(K[vsym.IntRange("ki", 0, 1)]) == nil, "Delete failed")
		case 2:
			b := []*wal.Entry{{Type: wal.OpTypePut, Key: K[0], Value: vsym.Bytes("bv", 1)}, {Type: wal.OpTypePut, Key: K[1], Value: vsym.Bytes("bv", 1)}}
			vsym.Assert(sm.ApplyBatch(b) == nil, "ApplyBatch failed")
			usedTx = true
			vsym.Region("KF-C14-transactions-do-not-replicate", usedTx)
		case 3:
			vsym.Assert(sm.FlushMemTables() == nil, "Flush failed")
			usedFlush = true
			vsym.Region("KF-C14-no-replication-after-log-rotation", usedFlush)
		}
		deliver()
	}
	if joinAt == n {
		join()
	}
	for round := 0; round < 3; round++ {
		deliver()
		p.sendUpdatedEntries(session)
	}
	deliver()
	q := vsym.Bytes("q", 1)
	pv, perr := sm.Get(q)
	rv, rerr := re.Get(q)
	vsym.Observe("primaryFound", perr == nil)
	vsym.Observe("replicaFound", rerr == nil)
	vsym.Assert((perr == nil) == (rerr == nil), "after the link is drained the replica disagrees with the primary on whether a key exists")
	if perr == nil && rerr == nil {
		vsym.Assert(len(pv) == len(rv) && vsym.EqBytes(pv, rv), "after the link is drained the replica holds a different value than the primary")
	}
	vsym.Reach("done")
}
