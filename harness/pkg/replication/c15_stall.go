//go:build verif

package replication

import (
	"context"

	"github.com/KevoDB/kevo/pkg/config"
	"github.com/KevoDB/kevo/pkg/engine/storage"
	"github.com/KevoDB/kevo/pkg/stats"
	"github.com/KevoDB/kevo/pkg/zzverif/vsym"
	proto "github.com/KevoDB/kevo/proto/kevo/replication"
	"google.golang.org/grpc/metadata"
)

// stalledStream is a replica stream whose Send never returns (the replica stopped reading).
type stalledStream struct{ sends int }

func (s *stalledStream) Send(*proto.WALStreamResponse) error { s.sends++; vsym.BlockForever(); return nil }
func (s *stalledStream) SetHeader(metadata.MD) error          { return nil }
func (s *stalledStream) SendHeader(metadata.MD) error         { return nil }
func (s *stalledStream) SetTrailer(metadata.MD)               {}
func (s *stalledStream) Context() context.Context             { return context.Background() }
func (s *stalledStream) SendMsg(m any) error                  { return nil }
func (s *stalledStream) RecvMsg(m any) error                  { return nil }

// VerifC15_StalledReplicaDoesNotBlockReads: with one replica whose stream never accepts another message,
// a client write may or may not return, but a client read on the primary must still complete.
func VerifC15_StalledReplicaDoesNotBlockReads() {
	cfg := config.NewDefaultConfig(vsym.Dir())
	sm, err := storage.NewManager(cfg, stats.NewAtomicCollector())
	vsym.Assert(err == nil, "NewManager failed")
	k, v := vsym.Bytes("k", 1), vsym.Bytes("v", 1)
	vsym.Assert(sm.Put(k, v) == nil, "first put failed")
	pc := DefaultPrimaryConfig()
	pc.EnableCompression = vsym.IntRange("compress", 0, 1) == 1
	if !pc.EnableCompression {
		pc.CompressionCodec = proto.CompressionCodec_NONE
	}
	p, err := NewPrimary(sm.GetWAL(), pc)
	vsym.Assert(err == nil, "NewPrimary failed")
	st := &stalledStream{}
	p.registerReplicaSession(&ReplicaSession{ID: "r1", Stream: st, Connected: true, Active: true,
		SupportedCodecs: []proto.CompressionCodec{proto.CompressionCodec_NONE}})
	go func() { sm.Put(k, vsym.Bytes("v2", 1)) }()
	vsym.Quiesce()
	got, gerr := sm.Get(k) // must return
	vsym.Assert(gerr == nil && len(got) == 1, "read failed")
	vsym.Reach("done")
}
