//go:build verif

package replication

import (
	"context"
	"errors"
	"os"
	"path/filepath"
	"sync/atomic"
	"time"

	"github.com/KevoDB/kevo/pkg/config"
	"github.com/KevoDB/kevo/pkg/engine/storage"
	"github.com/KevoDB/kevo/pkg/stats"
	"github.com/KevoDB/kevo/pkg/zzverif/vsym"
	proto "github.com/KevoDB/kevo/proto/kevo/replication"
	"google.golang.org/grpc/metadata"
)

// fakeStream is a replica's stream as the primary sees it: it records what it is sent, can fail, or can stall
// (Send never returns: the replica stopped reading and the transport's flow-control window is full).
type fakeStream struct {
	sent    []*proto.WALStreamResponse
	sends   int32
	stalled bool
	fail    bool
}

func (s *fakeStream) Send(r *proto.WALStreamResponse) error {
	atomic.AddInt32(&s.sends, 1)
	if s.stalled {
		vsym.BlockForever()
	}
	if s.fail {
		return errors.New("transport is closing")
	}
	s.sent = append(s.sent, r)
	return nil
}
func (s *fakeStream) SetHeader(metadata.MD) error  { return nil }
func (s *fakeStream) SendHeader(metadata.MD) error { return nil }
func (s *fakeStream) SetTrailer(metadata.MD)       {}
func (s *fakeStream) Context() context.Context     { return context.Background() }
func (s *fakeStream) SendMsg(m any) error          { return nil }
func (s *fakeStream) RecvMsg(m any) error          { return nil }

func c15Primary(sm *storage.Manager) *Primary {
	pc := DefaultPrimaryConfig()
	pc.EnableCompression = false
	pc.CompressionCodec = proto.CompressionCodec_NONE
	p, err := NewPrimary(sm.GetWAL(), pc)
	vsym.Assert(err == nil, "NewPrimary failed")
	return p
}

// c15Reported tells whether the topology the primary reports (GetReplicaInfo, what node-info calls show) lists the
// replica with the given session id.
func c15Reported(p *Primary, id string) bool {
	for _, r := range p.GetReplicaInfo() {
		if r.Address == id+":50053" {
			return true
		}
	}
	return false
}

func c15Session(id string, st *fakeStream) *ReplicaSession {
	return &ReplicaSession{ID: id, Stream: st, Connected: true, Active: true, LastActivity: time.Now(), ListenerAddress: id + ":50053",
		SupportedCodecs: []proto.CompressionCodec{proto.CompressionCodec_NONE}}
}

// VerifC15_StalledReplicaDoesNotBlockClients: a primary with one replica whose stream accepts no further message
// (Send never returns) and optionally a second, healthy replica. A client write is issued (it may or may not
// return: it is the one that meets the stalled stream); after that a second client's read, write or transaction
// must still complete.
func VerifC15_StalledReplicaDoesNotBlockClients() {
	cfg := config.NewDefaultConfig(vsym.Dir())
	sm, err := storage.NewManager(cfg, stats.NewAtomicCollector())
	vsym.Assert(err == nil, "NewManager failed")
	k, v := vsym.Bytes("k", 1), vsym.Bytes("v", 1)
	vsym.Assert(sm.Put(k, v) == nil, "first put failed")
	p := c15Primary(sm)
	stalled := &fakeStream{stalled: true}
	p.registerReplicaSession(c15Session("r1", stalled))
	healthy := &fakeStream{}
	if vsym.IntRange("second", 0, 1) == 1 {
		p.registerReplicaSession(c15Session("r2", healthy))
	}
	go func() { sm.Put(k, vsym.Bytes("v2", 1)) }()
	vsym.Quiesce()
	// the primary pushes synchronously from inside the log append, i.e. under the storage lock and the log
	// mutex: while one write waits for a stalled replica every other client operation queues behind it.
	// Recorded finding (the repair is an asynchronous, bounded send path per replica).
	vsym.Region("KF-C15-synchronous-push-under-engine-locks", atomic.LoadInt32(&stalled.sends) > 0)
	var done int32
	what := vsym.IntRange("client2", 0, 1)
	go func() {
		switch what {
		case 0:
			sm.Get(k)
		case 1:
			sm.Put(vsym.Bytes("k3", 1), vsym.Bytes("v3", 1))
		}
		atomic.StoreInt32(&done, 1)
	}()
	vsym.Quiesce()
	vsym.Reach("probed")
	vsym.Assert(atomic.LoadInt32(&done) == 1, "a client operation on the primary does not complete while a replica's stream is stalled")
	vsym.Reach("done")
}

// VerifC15_HeartbeatDropsSilentReplicas: one step of the heartbeat monitor over two sessions with symbolic idle
// times; a session's stream may also fail. Every session idle beyond the timeout, or whose heartbeat cannot be
// sent, is marked dead and removed from the topology the primary reports; the other session is untouched and is
// sent a heartbeat when it has been idle beyond the interval.
func VerifC15_HeartbeatDropsSilentReplicas() {
	cfg := config.NewDefaultConfig(vsym.Dir())
	sm, err := storage.NewManager(cfg, stats.NewAtomicCollector())
	vsym.Assert(err == nil, "NewManager failed")
	p := c15Primary(sm)
	hb := p.heartbeat
	const margin = uint64(time.Second)
	timeout, interval := uint64(hb.config.Timeout), uint64(hb.config.Interval)
	now := time.Now()
	var st [2]*fakeStream
	var idle [2]uint64
	ids := [2]string{"r1", "r2"}
	for i := 0; i < 2; i++ {
		st[i] = &fakeStream{fail: vsym.IntRange("streamfails", 0, 1) == 1}
		idle[i] = vsym.Uint64("idle")
		vsym.Assume(idle[i] < uint64(24*time.Hour))
		vsym.Assume(idle[i] > timeout+margin || idle[i]+margin < timeout)
		vsym.Assume(idle[i] > interval+margin || idle[i]+margin < interval)
		s := c15Session(ids[i], st[i])
		s.LastActivity = now.Add(-time.Duration(idle[i]))
		p.registerReplicaSession(s)
	}
	hb.checkSessions()
	for i := 0; i < 2; i++ {
		mustDrop := idle[i] > timeout || (idle[i] > interval && st[i].fail)
		s := p.getSession(ids[i])
		if mustDrop {
			vsym.Assert(!c15Reported(p, ids[i]), "a replica that is silent beyond the timeout (or whose stream fails) is still in the reported topology")
			vsym.Assert(s == nil, "the heartbeat monitor found a replica dead but kept its session")
		} else {
			vsym.Assert(c15Reported(p, ids[i]) && s != nil && s.Connected && s.Active, "a healthy replica was dropped by the heartbeat monitor")
			if idle[i] > interval {
				vsym.Assert(len(st[i].sent) == 1, "an idle but healthy replica was not sent a heartbeat")
			}
		}
	}
	vsym.Reach("done")
}

// VerifC15_FailingReplicaDoesNotFailWrites: one replica whose stream fails on every send next to a healthy one.
// Client writes succeed, the healthy replica is sent every write, the failing one is marked disconnected.
func VerifC15_FailingReplicaDoesNotFailWrites() {
	cfg := config.NewDefaultConfig(vsym.Dir())
	sm, err := storage.NewManager(cfg, stats.NewAtomicCollector())
	vsym.Assert(err == nil, "NewManager failed")
	p := c15Primary(sm)
	bad, good := &fakeStream{fail: true}, &fakeStream{}
	sb := c15Session("bad", bad)
	p.registerReplicaSession(sb)
	p.registerReplicaSession(c15Session("good", good))
	n := vsym.IntRange("n", 1, 2)
	for i := 0; i < n; i++ {
		k, v := vsym.Bytes("k", 1), vsym.Bytes("v", 1)
		if vsym.IntRange("op", 0, 1) == 0 {
			vsym.Assert(sm.Put(k, v) == nil, "a client write fails because a replica's stream fails")
		} else {
			vsym.Assert(sm.Delete(k) == nil, "a client delete fails because a replica's stream fails")
		}
	}
	got := 0
	for _, r := range good.sent {
		got += len(r.Entries)
	}
	vsym.Assert(got == n, "the healthy replica was not sent every write while another replica fails")
	vsym.Assert(!c15Reported(p, "bad"), "a replica whose stream fails is still in the reported topology")
	vsym.Assert(c15Reported(p, "good"), "the healthy replica left the reported topology")
	vsym.Assert(atomic.LoadInt32(&bad.sends) <= 1, "the primary keeps sending to a replica it has marked disconnected")
	vsym.Reach("done")
}

// VerifC15_PollVsWriteNoDeadlock: a healthy replica session is served by the primary's polling sender
// (sendUpdatedEntries, what the StreamWAL loop calls on every tick) while a client writes. Both complete: the
// push path (inside the log append) and the polling path take the log, primary and session locks in compatible
// orders.
func VerifC15_PollVsWriteNoDeadlock() {
	cfg := config.NewDefaultConfig(vsym.Dir())
	cfg.WALSyncMode = config.SyncMode(vsym.IntRange("sync", 0, 2))
	sm, err := storage.NewManager(cfg, stats.NewAtomicCollector())
	vsym.Assert(err == nil, "NewManager failed")
	k := vsym.Bytes("k", 1)
	vsym.Assert(sm.Put(k, vsym.Bytes("v", 1)) == nil, "first put failed")
	p := c15Primary(sm)
	st := &fakeStream{}
	session := c15Session("r1", st)
	p.registerReplicaSession(session)
	var wdone, pdone int32
	go func() {
		sm.Put(k, vsym.Bytes("v2", 1))
		atomic.StoreInt32(&wdone, 1)
	}()
	go func() {
		p.sendUpdatedEntries(session)
		atomic.StoreInt32(&pdone, 1)
	}()
	vsym.Quiesce()
	vsym.Reach("probed")
	vsym.Assert(atomic.LoadInt32(&wdone) == 1, "a client write never returns while the primary polls the log for a healthy replica (lock-order deadlock)")
	vsym.Assert(atomic.LoadInt32(&pdone) == 1, "the polling sender never returns while a client writes (lock-order deadlock)")
	vsym.Reach("done")
}

// VerifC15_HeartbeatVsWriteNoDeadlock: the heartbeat monitor's sweep finds a replica dead (its stream fails or it has
// been silent beyond the timeout) while a client writes and, optionally, an acknowledgement for that session
// arrives. Everything completes, the dead replica leaves the topology, the healthy one stays.
func VerifC15_HeartbeatVsWriteNoDeadlock() {
	cfg := config.NewDefaultConfig(vsym.Dir())
	sm, err := storage.NewManager(cfg, stats.NewAtomicCollector())
	vsym.Assert(err == nil, "NewManager failed")
	k := vsym.Bytes("k", 1)
	p := c15Primary(sm)
	bad := c15Session("bad", &fakeStream{fail: true})
	if vsym.IntRange("silent", 0, 1) == 1 {
		bad.LastActivity = time.Now().Add(-2 * p.heartbeat.config.Timeout)
	} else {
		bad.LastActivity = time.Now().Add(-2 * p.heartbeat.config.Interval)
	}
	p.registerReplicaSession(bad)
	p.registerReplicaSession(c15Session("good", &fakeStream{}))
	withAck := vsym.IntRange("ack", 0, 1) == 1
	var wdone, hdone, adone int32
	go func() { sm.Put(k, vsym.Bytes("v", 1)); atomic.StoreInt32(&wdone, 1) }()
	go func() { p.heartbeat.checkSessions(); atomic.StoreInt32(&hdone, 1) }()
	if withAck {
		go func() { p.updateSessionAck("bad", 1); atomic.StoreInt32(&adone, 1) }()
	}
	vsym.Quiesce()
	vsym.Reach("probed")
	vsym.Assert(atomic.LoadInt32(&wdone) == 1, "a client write never returns while the heartbeat monitor drops a dead replica")
	vsym.Assert(atomic.LoadInt32(&hdone) == 1, "the heartbeat sweep never returns while a client writes")
	vsym.Assert(!withAck || atomic.LoadInt32(&adone) == 1, "an acknowledgement never returns while the heartbeat monitor drops a replica")
	vsym.Assert(!c15Reported(p, "bad"), "a dead replica is still in the reported topology after the heartbeat sweep")
	vsym.Assert(c15Reported(p, "good"), "a healthy replica was dropped from the reported topology")
	vsym.Reach("done")
}

// VerifC15_AckVsWriteNoDeadlock: a replica's acknowledgement is processed (session bookkeeping and the log retention
// check that follows every acknowledgement; the log directory holds an older log file, so the check goes all the way
// to the log) while a client writes. Both complete: the acknowledgement path and the push path inside the log append
// take the primary and log locks in compatible orders.
func VerifC15_AckVsWriteNoDeadlock() {
	cfg := config.NewDefaultConfig(vsym.Dir())
	cfg.WALSyncMode = config.SyncMode(vsym.IntRange("sync", 0, 2))
	sm, err := storage.NewManager(cfg, stats.NewAtomicCollector())
	vsym.Assert(err == nil, "NewManager failed")
	k := vsym.Bytes("k", 1)
	vsym.Assert(sm.Put(k, vsym.Bytes("v", 1)) == nil, "first put failed")
	// an older log file next to the current one (what a restart behind a damaged tail, or a rotation, leaves)
	vsym.Assert(os.WriteFile(filepath.Join(cfg.WALDir, "00000000000000000001.wal"), nil, 0644) == nil, "creating an older log file failed")
	p := c15Primary(sm)
	session := c15Session("r1", &fakeStream{})
	p.registerReplicaSession(session)
	var wdone, adone int32
	go func() {
		sm.Put(k, vsym.Bytes("v2", 1))
		atomic.StoreInt32(&wdone, 1)
	}()
	go func() {
		p.updateSessionAck("r1", 1)
		p.maybeManageWALRetention()
		atomic.StoreInt32(&adone, 1)
	}()
	vsym.Quiesce()
	vsym.Reach("probed")
	vsym.Assert(atomic.LoadInt32(&wdone) == 1, "a client write never returns while an acknowledgement is processed (lock-order deadlock)")
	vsym.Assert(atomic.LoadInt32(&adone) == 1, "an acknowledgement never returns while a client writes (lock-order deadlock)")
	vsym.Reach("done")
}

// VerifC15_StatusVsWriteNoDeadlock: the calls through which a primary reports its topology and progress - the
// replication manager's Status (the detailed per-replica report) and GetNodeInfo (what the node-information RPC
// serves) - are polled while a client writes, with zero or one healthy replica attached and every log sync mode.
// Both the write and the report return: reporting must not take the primary's locks and the log's in an order that
// can meet the write path's order (log mutex, then the primary's lock in the sync notification).
func VerifC15_StatusVsWriteNoDeadlock() {
	cfg := config.NewDefaultConfig(vsym.Dir())
	cfg.WALSyncMode = config.SyncMode(vsym.IntRange("sync", 0, 2))
	sm, err := storage.NewManager(cfg, stats.NewAtomicCollector())
	vsym.Assert(err == nil, "NewManager failed")
	k := vsym.Bytes("k", 1)
	vsym.Assert(sm.Put(k, vsym.Bytes("v", 1)) == nil, "first put failed")
	p := c15Primary(sm)
	if vsym.IntRange("replicas", 0, 1) == 1 {
		p.registerReplicaSession(c15Session("r1", &fakeStream{}))
	}
	m := &Manager{config: &ManagerConfig{Enabled: true, Mode: ReplicationModePrimary, ListenAddr: "p:50052"}, primary: p, serviceStatus: true}
	which := vsym.IntRange("report", 0, 1)
	var wdone, sdone int32
	var seq uint64
	go func() {
		sm.Put(k, vsym.Bytes("v2", 1))
		atomic.StoreInt32(&wdone, 1)
	}()
	go func() {
		if which == 0 {
			st := m.Status()
			if s, ok := st["current_wal_sequence"].(uint64); ok {
				seq = s
			}
		} else {
			_, _, _, seq, _ = m.GetNodeInfo()
		}
		atomic.StoreInt32(&sdone, 1)
	}()
	vsym.Quiesce()
	vsym.Reach("probed")
	vsym.Assert(atomic.LoadInt32(&wdone) == 1, "a client write never returns while the primary's status is being reported (lock-order deadlock)")
	vsym.Assert(atomic.LoadInt32(&sdone) == 1, "the primary's status report never returns while a client writes (lock-order deadlock)")
	vsym.Assert(seq <= 2, "the reported sequence is beyond the last write")
	vsym.Reach("done")
}
