//go:build verif

package replication

import (
	"errors"

	"github.com/KevoDB/kevo/pkg/wal"
	"github.com/KevoDB/kevo/pkg/zzverif/vsym"
	replication_proto "github.com/KevoDB/kevo/proto/kevo/replication"
)

// VerifC13_ApplyStepInductive: one ApplyEntries call from an arbitrary applier state with an arbitrary batch.
func VerifC13_ApplyStepInductive() {
	start := vsym.Uint64("start")
	vsym.Assume(start < 1<<62)
	a := NewWALBatchApplier(start)
	exp0 := a.GetExpectedNext()
	max0 := a.GetMaxApplied()
	n := vsym.IntRange("n", 0, 3)
	var entries []*replication_proto.WALEntry
	var seqs [3]uint64
	for i := 0; i < n; i++ {
		seqs[i] = vsym.Uint64("seq")
		e := &wal.Entry{SequenceNumber: seqs[i], Type: wal.OpTypePut, Key: vsym.Bytes("k", 1), Value: vsym.Bytes("v", 1)}
		p, err := WALEntryToProto(e, replication_proto.FragmentType_FULL)
		vsym.Assert(err == nil, "serialize failed")
		entries = append(entries, p)
	}
	failAt := vsym.IntRange("failAt", -1, 2)
	var applied []uint64
	maxSeq, _, err := a.ApplyEntries(entries, func(e *wal.Entry) error {
		if len(applied) == failAt {
			return errors.New("apply failed")
		}
		applied = append(applied, e.SequenceNumber)
		return nil
	})
	// what was applied is exactly exp0, exp0+1, ... in order
	for i := range applied {
		vsym.Assert(applied[i] == exp0+uint64(i), "applied entry is not the next expected one")
	}
	// cursor moved past exactly the applied entries
	vsym.Assert(a.GetExpectedNext() == exp0+uint64(len(applied)), "cursor does not match what was applied")
	vsym.Assert(a.GetMaxApplied() >= max0, "reported applied sequence decreased")
	vsym.Assert(a.GetMaxApplied() == maxSeq, "returned and stored max differ")
	if err == nil {
		vsym.Assert(len(applied) == n, "success but not everything applied")
	}
	vsym.Reach("done")
}
