//go:build verif

package replication

import (
	"sync"

	"github.com/KevoDB/kevo/pkg/engine"
	"github.com/KevoDB/kevo/pkg/wal"
	"github.com/KevoDB/kevo/pkg/zzverif/vsym"
)

// VerifC16_ApplierVsClientWrite: the replica's real apply path - replication.EngineApplier.Apply on the real
// EngineFacade in read-only mode - applies one replicated entry (put, delete or merge) while a client tries to write
// (put, delete of the replicated key, read-write transaction) and asks whether the node is read-only. The client
// write is refused, its key never appears, the node reports read-only throughout, the replicated entry takes effect.
// (How the applier reaches the engine - which of the engine's entry points it finds and uses - is part of what runs.)
func VerifC16_ApplierVsClientWrite() {
	e, err := engine.NewEngineFacade(vsym.Dir())
	vsym.Assert(err == nil, "open failed")
	rk, ck := vsym.Bytes("rk", 1), vsym.Bytes("ck", 1)
	vsym.Assume(rk[0] != ck[0])
	vsym.Assert(e.Put(rk, vsym.Bytes("v0", 1)) == nil, "setup put failed")
	e.SetReadOnly(true)
	ap := NewEngineApplier(e)
	rv := vsym.Bytes("rv", 1)
	typ := []uint8{wal.OpTypePut, wal.OpTypeDelete, wal.OpTypeMerge}[vsym.IntRange("type", 0, 2)]
	client := vsym.IntRange("client", 0, 2)
	var wg sync.WaitGroup
	wg.Add(2)
	var aerr, cerr error
	sawWritable := false
	go func() {
		defer wg.Done()
		aerr = ap.Apply(&wal.Entry{SequenceNumber: 2, Type: typ, Key: rk, Value: rv})
	}()
	go func() {
		defer wg.Done()
		cv := vsym.Bytes("cv", 1)
		switch client {
		case 0:
			cerr = e.Put(ck, cv)
		case 1:
			cerr = e.Delete(rk)
		case 2:
			tx, err := e.BeginTransaction(false)
			if err != nil {
				cerr = err
			} else {
				cerr = tx.Put(ck, cv)
				if cerr == nil {
					cerr = tx.Commit()
				} else {
					tx.Rollback()
				}
			}
		}
		if !e.IsReadOnly() {
			sawWritable = true
		}
	}()
	wg.Wait()
	vsym.Assert(aerr == nil, "applying a replicated entry failed on a replica")
	vsym.Assert(cerr != nil, "a client write was accepted on a replica while a replicated entry was being applied")
	vsym.Assert(!sawWritable, "a replica reported itself writable while a replicated entry was being applied")
	_, gerr := e.Get(ck)
	vsym.Assert(gerr != nil, "a client's write appeared on a replica")
	got, gerr := e.Get(rk)
	if typ == wal.OpTypeDelete {
		vsym.Assert(gerr != nil, "the replicated delete did not take effect (or a refused client delete hid it)")
	} else {
		vsym.Assert(gerr == nil && vsym.EqBytes(got, rv), "the replicated write did not take effect")
	}
	vsym.Assert(e.IsReadOnly(), "the read-only flag was lost")
	vsym.Reach("done")
}
