//go:build verif

package replication

import (
	"context"
	"errors"

	"github.com/KevoDB/kevo/pkg/wal"
	"github.com/KevoDB/kevo/pkg/zzverif/vsym"
	replication_proto "github.com/KevoDB/kevo/proto/kevo/replication"
	"google.golang.org/grpc"
)

// recApplier records what the replica applies; it can be told to fail once at a given call.
type recApplier struct {
	applied []*wal.Entry
	calls   int
	failAt  int
}

func (a *recApplier) Apply(e *wal.Entry) error {
	a.calls++
	if a.calls == a.failAt {
		return errors.New("transient apply failure")
	}
	a.applied = append(a.applied, e)
	return nil
}
func (a *recApplier) Sync() error { return nil }

// nackClient records negative acknowledgements; the other calls of the client interface are not used here.
type nackClient struct {
	replication_proto.WALReplicationServiceClient
	nacks []uint64
}

func (c *nackClient) NegativeAcknowledge(ctx context.Context, in *replication_proto.Nack, opts ...grpc.CallOption) (*replication_proto.NackResponse, error) {
	c.nacks = append(c.nacks, in.MissingFromSequence)
	return &replication_proto.NackResponse{Success: true}, nil
}

// VerifC13_DeliverySchedules: a primary log of <=3 operations (consecutive sequence numbers from a symbolic start),
// delivered to a real Replica as <=3 stream messages, each an arbitrary sub-range of the log (so duplicates,
// reordering, gaps and overlaps all occur), optionally compressed, with one transient apply failure at a symbolic
// point. After every message what the replica has applied is a prefix of the log, in order, each entry once,
// unaltered; the reported applied sequence never decreases and never exceeds what was applied; a gap is
// answered with a retransmission request from the right sequence.
func VerifC13_DeliverySchedules() {
	ap := &recApplier{failAt: vsym.IntRange("failAt", 0, 2)}
	start := uint64(vsym.IntRange("start", 0, 1)) * 1000
	rep, err := NewReplica(start, ap, DefaultReplicaConfig())
	vsym.Assert(err == nil, "NewReplica failed")
	nc := &nackClient{}
	rep.client = nc
	N, M, C := 2, 2, 1
	if vsym.Thorough() {
		N, M, C = 3, 3, 2
	}
	n := vsym.IntRange("n", 1, N)
	var log []*wal.Entry
	for i := 0; i < n; i++ {
		e := &wal.Entry{SequenceNumber: start + uint64(i) + 1, Key: vsym.Bytes("k", 1)}
		if vsym.IntRange("del", 0, 1) == 1 {
			e.Type = wal.OpTypeDelete
		} else {
			e.Type = wal.OpTypePut
			e.Value = vsym.Bytes("v", 1)
		}
		log = append(log, e)
	}
	codec := replication_proto.CompressionCodec(vsym.IntRange("codec", 0, C)) // NONE, ZSTD, (thorough) SNAPPY
	var lastReported uint64 = rep.GetLastAppliedSequence()
	msgs := vsym.IntRange("msgs", 1, M)
	for m := 0; m < msgs; m++ {
		a := vsym.IntRange("from", 0, n-1)
		b := vsym.IntRange("to", a+1, n)
		resp := &replication_proto.WALStreamResponse{Codec: codec, Compressed: codec != replication_proto.CompressionCodec_NONE}
		for _, e := range log[a:b] {
			p, err := WALEntryToProto(e, replication_proto.FragmentType_FULL)
			vsym.Assert(err == nil, "WALEntryToProto failed")
			if resp.Compressed {
				c, err := rep.compressor.Compress(p.Payload, codec)
				vsym.Assert(err == nil, "Compress failed")
				p.Payload = c
			}
			resp.Entries = append(resp.Entries, p)
		}
		before := len(ap.applied)
		nacksBefore := len(nc.nacks)
		perr := rep.processEntriesWithoutStateTransitions(resp)
		_ = perr
		// prefix property
		k := len(ap.applied)
		vsym.Assert(k <= n, "replica applied more operations than the log holds (re-application)")
		for i := 0; i < k && i < n; i++ {
			g := ap.applied[i]
			vsym.Assert(g.SequenceNumber == log[i].SequenceNumber, "replica applied operations out of primary order (skipped, duplicated or reordered)")
			vsym.Assert(g.Type == log[i].Type && vsym.EqBytes(g.Key, log[i].Key), "replica applied an altered operation")
			if log[i].Type == wal.OpTypePut {
				vsym.Assert(vsym.EqBytes(g.Value, log[i].Value), "replica applied an altered value")
			}
		}
		vsym.Assert(k >= before, "applied history shrank")
		rs := rep.GetLastAppliedSequence()
		vsym.Assert(rs >= lastReported, "reported applied sequence decreased")
		vsym.Assert(rs <= start+uint64(k), "reported applied sequence exceeds what was applied")
		lastReported = rs
		// a message that starts beyond the cursor must be refused and answered by a retransmission request
		if a > before {
			vsym.Assert(k == before, "a message with a gap was applied")
			vsym.Assert(len(nc.nacks) == nacksBefore+1 && nc.nacks[len(nc.nacks)-1] == start+uint64(before)+1, "a gap was not answered by a retransmission request from the next expected sequence")
		}
		// a message that starts exactly at the cursor and meets no failure must be applied completely
		if a == before && (ap.failAt == 0 || ap.calls < ap.failAt) {
			vsym.Assert(k == b, "an in-order message was not applied completely")
		}
	}
	vsym.Reach("done")
}

// VerifC13_SerializeRoundTrip: DeserializeWALEntry(SerializeWALEntry(e)) = e for put/delete/merge entries with
// key/value lengths 0-2 and arbitrary sequence numbers; a payload cut at any point is rejected, never
// delivered as a different operation.
func VerifC13_SerializeRoundTrip() {
	e := &wal.Entry{SequenceNumber: vsym.Uint64("seq"), Type: uint8(vsym.IntRange("ty", 1, 3)), Key: vsym.Bytes("k", vsym.IntRange("kl", 0, 2))}
	if e.Type != wal.OpTypeDelete {
		e.Value = vsym.Bytes("v", vsym.IntRange("vl", 0, 2))
	}
	p, err := SerializeWALEntry(e)
	vsym.Assert(err == nil, "serialize failed")
	if vsym.IntRange("cut", 0, 1) == 0 {
		g, err := DeserializeWALEntry(p)
		vsym.Assert(err == nil, "deserialize of a serialized entry failed")
		if err == nil {
			vsym.Assert(g.SequenceNumber == e.SequenceNumber && g.Type == e.Type, "type or sequence number differs after the round trip")
			vsym.Assert(vsym.EqBytes(g.Key, e.Key), "key differs after the round trip")
			if e.Type != wal.OpTypeDelete {
				vsym.Assert(vsym.EqBytes(g.Value, e.Value), "value differs after the round trip")
			}
		}
	} else {
		at := vsym.IntRange("at", 0, len(p)-1)
		g, err := DeserializeWALEntry(p[:at])
		if err == nil {
			// accepting a cut payload is only acceptable if it still denotes the same operation
			same := g.SequenceNumber == e.SequenceNumber && g.Type == e.Type
			same = vsym.And(same, vsym.EqBytes(g.Key, e.Key))
			if e.Type != wal.OpTypeDelete {
				same = vsym.And(same, vsym.EqBytes(g.Value, e.Value))
			}
			vsym.Assert(same, "a cut payload was accepted as a different operation")
		}
	}
	vsym.Reach("done")
}
