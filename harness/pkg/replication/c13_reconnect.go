//go:build verif

package replication

import (
	"context"
	"io"
	"sync"

	"github.com/KevoDB/kevo/pkg/wal"
	"github.com/KevoDB/kevo/pkg/zzverif/vsym"
	proto "github.com/KevoDB/kevo/proto/kevo/replication"
	"google.golang.org/grpc"
	"google.golang.org/grpc/codes"
	"google.golang.org/grpc/metadata"
	"google.golang.org/grpc/status"
)

// scriptPrimary is a primary seen through the replica's client interface. Each stream serves the log from the
// sequence the replica asked for; what each Recv does is a symbolic choice: deliver the next 1..k entries, fail with
// a connection reset, or report that there is nothing to read right now.
type scriptPrimary struct {
	proto.WALReplicationServiceClient
	mu     sync.Mutex
	log    []*wal.Entry
	starts []uint64
	events int
	acks   []uint64
	script string
}

type scriptStream struct {
	grpc.ClientStream
	p    *scriptPrimary
	next uint64
}

func (p *scriptPrimary) StreamWAL(ctx context.Context, in *proto.WALStreamRequest, opts ...grpc.CallOption) (grpc.ServerStreamingClient[proto.WALStreamResponse], error) {
	p.mu.Lock()
	defer p.mu.Unlock()
	p.starts = append(p.starts, in.StartSequence)
	return &scriptStream{p: p, next: in.StartSequence}, nil
}
func (p *scriptPrimary) Acknowledge(ctx context.Context, in *proto.Ack, opts ...grpc.CallOption) (*proto.AckResponse, error) {
	p.acks = append(p.acks, in.AcknowledgedUpTo)
	return &proto.AckResponse{Success: true}, nil
}
func (p *scriptPrimary) NegativeAcknowledge(ctx context.Context, in *proto.Nack, opts ...grpc.CallOption) (*proto.NackResponse, error) {
	return &proto.NackResponse{Success: true}, nil
}
func (s *scriptStream) Header() (metadata.MD, error) { return nil, nil }
func (s *scriptStream) Recv() (*proto.WALStreamResponse, error) {
	p := s.p
	p.mu.Lock()
	defer p.mu.Unlock()
	n := uint64(len(p.log))
	ev := byte('N')
	if p.events < len(p.script) {
		ev = p.script[p.events]
	}
	p.events++
	switch {
	case ev == 'R':
		return nil, status.Error(codes.Unavailable, "connection reset by peer")
	case ev == 'N' || s.next == 0 || s.next > n:
		return nil, io.EOF
	}
	upTo := n
	if ev == 'd' { // one entry only
		upTo = s.next
	}
	resp := &proto.WALStreamResponse{Codec: proto.CompressionCodec_NONE}
	for q := s.next; q <= upTo; q++ {
		pe, err := WALEntryToProto(p.log[q-1], proto.FragmentType_FULL)
		vsym.Assert(err == nil, "WALEntryToProto failed")
		resp.Entries = append(resp.Entries, pe)
	}
	s.next = upTo + 1
	return resp, nil
}

// c13Scripts: what the primary's stream does at successive Recv calls: D = deliver everything from the requested
// position, d = deliver one entry, R = connection reset, N = nothing to read right now; after the script: nothing.
var c13Scripts = []string{"DD", "DRD", "RDD", "dRD", "dRdD", "DND", "dNRD", "NDRD", "dDRD", "RdRD"}

type scriptConnector struct {
	c proto.WALReplicationServiceClient
}

func (c *scriptConnector) Connect(r *Replica) error {
	r.mu.Lock()
	defer r.mu.Unlock()
	r.client = c.c
	return nil
}

// VerifC13_ReconnectResumes: the replica's own state handlers (connecting, streaming, waiting for data, fsync,
// acknowledging, error/back-off), driven tick by tick like its replication loop does, against a scripted primary
// whose stream delivers, stalls or is reset at symbolic points, and with one transient failure of the local apply at
// a symbolic call. Whatever the resets, failures and reconnections: what the
// replica has applied is always a prefix of the primary's log, in order, nothing twice; the applied sequence it
// reports never decreases and never exceeds what it applied; every new stream asks for the entry after the last
// one applied.
func VerifC13_ReconnectResumes() {
	ap := &recApplier{}
	cfg := DefaultReplicaConfig()
	rep, err := NewReplica(0, ap, cfg)
	vsym.Assert(err == nil, "NewReplica failed")
	n := 2
	ns := 3
	if vsym.Thorough() {
		n, ns = 3, len(c13Scripts)
	}
	prim := &scriptPrimary{script: c13Scripts[vsym.IntRange("script", 0, ns-1)]}
	for i := 0; i < n; i++ {
		prim.log = append(prim.log, &wal.Entry{SequenceNumber: uint64(i + 1), Type: wal.OpTypePut, Key: []byte{byte('a' + i)}, Value: []byte{byte(i)}})
	}
	// the local apply may fail once, at a symbolic call (0 = never): in the middle of a message it leaves the
	// message half applied when the replica goes through its error state and reconnects
	ap.failAt = vsym.IntRange("applyFailsAt", 0, n)
	rep.SetConnector(&scriptConnector{c: prim})
	backoff := rep.createBackoff()
	var reported uint64
	T := 8
	if vsym.Thorough() {
		T = 10
	}
	for tick := 0; tick < T; tick++ {
		var terr error
		switch rep.stateTracker.GetState() {
		case StateConnecting:
			terr = rep.handleConnectingState()
		case StateStreamingEntries:
			terr = rep.handleStreamingState()
		case StateApplyingEntries:
			terr = rep.handleApplyingState()
		case StateFsyncPending:
			terr = rep.handleFsyncState()
		case StateAcknowledging:
			terr = rep.handleAcknowledgingState()
		case StateWaitingForData:
			terr = rep.handleWaitingForDataState()
		case StateError:
			terr = rep.handleErrorState(backoff)
		}
		if terr != nil {
			rep.stateTracker.SetError(terr)
		}
		vsym.Quiesce() // a receive goroutine left behind by a timed-out tick finishes before the next tick
		k := len(ap.applied)
		vsym.Assert(k <= n, "the replica applied more operations than the primary's log holds (re-application after a reconnect)")
		for i := 0; i < k && i < n; i++ {
			vsym.Assert(ap.applied[i].SequenceNumber == uint64(i+1), "the replica applied operations out of primary order (an old operation again, or one skipped)")
		}
		rs := rep.GetLastAppliedSequence()
		vsym.Assert(rs >= reported, "the applied sequence the replica reports decreased")
		vsym.Assert(rs <= uint64(k), "the applied sequence the replica reports exceeds what it applied")
		reported = rs
	}
	for _, s := range prim.starts {
		vsym.Assert(s >= 1 && s <= uint64(len(ap.applied))+1, "a stream request does not ask for the entry after the last one applied")
	}
	vsym.Reach("done")
}
