//go:build verif

package stats

import (
	"sync"

	"github.com/KevoDB/kevo/pkg/zzverif/vsym"
)

func c07StatsCall(c *AtomicCollector, which int, op OperationType) {
	switch which {
	case 0:
		c.TrackOperation(op)
	case 1:
		c.TrackOperationWithLatency(op, 1000)
	case 2:
		c.TrackError("write_failed")
	case 3:
		c.TrackBytes(true, 10)
	case 4:
		c.TrackFlush()
		c.TrackCompaction()
		c.TrackMemTableSize(7)
	case 5:
		c.GetStats()
	case 6:
		c.GetStatsFiltered("put")
	case 7:
		t := c.StartRecovery()
		c.FinishRecovery(t, 1, 2, 0)
	}
}

// VerifC07_StatsPairs: every unordered pair of eight statistics entry points from two goroutines, on the same or on
// different operation types, on a fresh collector (counters are created lazily): no data race, no panic; both return.
func VerifC07_StatsPairs() {
	c := NewAtomicCollector()
	if vsym.IntRange("warm", 0, 1) == 1 {
		c.TrackOperationWithLatency(OpPut, 5)
	}
	a := vsym.IntRange("a", 0, 7)
	b := vsym.IntRange("b", a, 7)
	opB := OpGet
	if vsym.IntRange("sameOp", 0, 1) == 1 {
		opB = OpPut
	}
	var wg sync.WaitGroup
	wg.Add(2)
	go func() { defer wg.Done(); c07StatsCall(c, a, OpPut) }()
	go func() { defer wg.Done(); c07StatsCall(c, b, opB) }()
	wg.Wait()
	vsym.Reach("done")
}
