//go:build verif

package engine

import (
	"sync"

	"github.com/KevoDB/kevo/pkg/zzverif/vsym"
)

// VerifC06_ReadsDuringCompaction: the database holds two flushed level-0 tables (K0 written, then overwritten or
// deleted; K1 written) and has been restarted with the flushed logs retired, so every read is served by the tables.
// A compaction cycle (triggered, or a range compaction) runs while a client reads K0 and K1, plainly or through a
// scan. Whatever the interleaving with the cycle's file removals and table-list reload: every read returns the
// latest write of its key - never "not found" for a live key, never the overwritten value, never the deleted key.
func VerifC06_ReadsDuringCompaction() {
	h := &hEnv{maxMem: 2}
	h.hKeys(2)
	h.hOpen(true, false)
	e := h.e
	v0 := vsym.Bytes("v0", 1)
	vsym.Assert(e.Put(h.K[0], v0) == nil, "Put failed")
	h.present[0], h.val[0] = true, v0
	vsym.Assert(e.FlushImMemTables() == nil, "Flush failed")
	if vsym.IntRange("second", 0, 1) == 0 {
		v1 := vsym.Bytes("v1", 1)
		vsym.Assert(e.Put(h.K[0], v1) == nil, "Put failed")
		h.val[0] = v1
	} else {
		vsym.Assert(e.Delete(h.K[0]) == nil, "Delete failed")
		h.present[0] = false
	}
	w := vsym.Bytes("w", 1)
	vsym.Assert(e.Put(h.K[1], w) == nil, "Put failed")
	h.present[1], h.val[1] = true, w
	vsym.Assert(e.FlushImMemTables() == nil, "Flush failed")
	vsym.Assert(e.Close() == nil, "Close failed")
	h.retireLogs()
	h.hOpen(false, false)
	e = h.e
	kind := vsym.IntRange("cycle", 0, 1)
	reader := vsym.IntRange("reader", 0, 1)
	var wg sync.WaitGroup
	wg.Add(2)
	go func() {
		defer wg.Done()
		if kind == 0 {
			e.TriggerCompaction()
		} else {
			e.CompactRange(h.K[0], h.K[1])
		}
	}()
	go func() {
		defer wg.Done()
		if reader == 0 {
			for i := 0; i < 2; i++ {
				h.hProbeKey(i)
			}
		} else {
			h.hScan()
		}
	}()
	wg.Wait()
	for i := 0; i < 2; i++ {
		h.hProbeKey(i)
	}
	vsym.Reach("done")
}
