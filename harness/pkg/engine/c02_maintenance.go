//go:build verif

package engine

import "github.com/KevoDB/kevo/pkg/zzverif/vsym"

// VerifC02_CrashDuringMaintenance: with synchronous logging, the history  put K1; flush (log rotation, SSTable write
// and rename); put K0 (overwrite); [delete K1]  runs on a database that already holds K0, and the process dies at any
// file-system step of it (both crash models, torn in-flight writes). After reopening, the state is the one
// produced by a prefix of that history which contains every acknowledged write - maintenance in the middle neither
// loses, reorders nor resurrects anything - and a further write, clean close and reopen work as usual.
func VerifC02_CrashDuringMaintenance() {
	h := &hEnv{}
	syncMode := 2
	if vsym.Thorough() {
		// thorough: also the unsynced modes, where acknowledged writes may be lost but the prefix shape must hold
		syncMode = vsym.IntRange("sync", 0, 2)
		h.sync = syncMode + 1
	}
	h.hKeys(2)
	h.hOpen(true, vsym.IntRange("small", 0, 1) == 1)
	v0 := vsym.Bytes("v0", 1)
	vsym.Assert(h.e.Put(h.K[0], v0) == nil, "setup put failed")
	if syncMode != 2 {
		// without synchronous logging a write may sit in the process' log buffer indefinitely; the setup write is
		// made durable the only way those modes offer: a clean close
		vsym.Assert(h.e.Close() == nil, "setup close failed")
		h.hOpen(false, false)
	}
	vsym.Durable()
	v1, v2 := vsym.Bytes("v1", 1), vsym.Bytes("v2", 1)
	vsym.Assume(vsym.Not(vsym.EqBytes(v0, v2)))
	withDelete := vsym.IntRange("withDelete", 0, 1) == 1
	mode := vsym.IntRange("mode", 1, 2)
	acked := 0 // number of writes of the history acknowledged before the crash (flush is not a write)
	e := h.e
	vsym.CrashRegion(mode, func() {
		if e.Put(h.K[1], v1) != nil {
			return
		}
		acked = 1
		if e.FlushImMemTables() != nil {
			return
		}
		if e.Put(h.K[0], v2) != nil {
			return
		}
		acked = 2
		if withDelete {
			if e.Delete(h.K[1]) != nil {
				return
			}
			acked = 3
		}
	}, &acked)
	h.hOpen(false, false)
	g0, e0 := h.e.Get(h.K[0])
	_, e1 := h.e.Get(h.K[1])
	vsym.Assert(e0 == nil, "a key written and on stable storage long before the crash is gone after recovery")
	if e0 != nil {
		return
	}
	k0new := vsym.EqBytes(g0, v2)
	vsym.Assert(vsym.Or(k0new, vsym.EqBytes(g0, v0)), "recovery produced a value nobody wrote")
	// which prefix lengths (0..3 writes) explain what is read?
	var ok [4]bool
	ok[0] = vsym.And(vsym.Not(k0new), e1 != nil)
	ok[1] = vsym.And(vsym.Not(k0new), e1 == nil)
	ok[2] = vsym.And(k0new, e1 == nil)
	ok[3] = vsym.And(withDelete, vsym.And(k0new, e1 != nil))
	any, ackedOK := false, false
	for j := 0; j < 4; j++ {
		any = vsym.Or(any, ok[j])
		if j >= acked {
			ackedOK = vsym.Or(ackedOK, ok[j])
		}
	}
	vsym.Assert(any, "the recovered state is not the state after a prefix of the history (reordered, half-applied or resurrected)")
	if syncMode == 2 {
		vsym.Assert(ackedOK, "an acknowledged write is missing after crash recovery although logging is synchronous")
	}
	// life goes on
	nv := vsym.Bytes("nv", 1)
	vsym.Assert(h.e.Put(h.K[1], nv) == nil, "Put after recovery failed")
	vsym.Assert(h.e.Close() == nil, "Close after recovery failed")
	h.hOpen(false, false)
	got, gerr := h.e.Get(h.K[1])
	vsym.Assert(gerr == nil && vsym.EqBytes(got, nv), "a write made after the recovery is lost across a clean restart")
	vsym.Reach("done")
}
