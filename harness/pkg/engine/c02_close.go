//go:build verif

package engine

import (
	"github.com/KevoDB/kevo/pkg/wal"
	"github.com/KevoDB/kevo/pkg/zzverif/vsym"
)

// VerifC02_CleanCloseReopen: in every log sync mode, after programs of small puts, deletes, puts whose value sits
// at a log-fragment boundary, and batches below / above the 64 KiB log buffer (so that earlier acknowledged
// writes are still buffered when the large write arrives), a clean close followed by a reopen yields exactly the
// pre-close state.
func VerifC02_CleanCloseReopen() {
	h := &hEnv{sync: 1 + vsym.IntRange("sync", 0, 2)}
	h.hKeys(3)
	h.hOpen(true, false)
	e := h.e
	N := 2
	if vsym.Thorough() {
		N = 3
	}
	n := vsym.IntRange("n", 1, N)
	for i := 0; i < n; i++ {
		switch vsym.IntRange("op", 0, 3) {
		case 0:
			ki := vsym.IntRange("ki", 0, 1)
			v := vsym.Bytes("v", 1)
			vsym.Assert(e.Put(h.K[ki], v) == nil, "Put failed")
			h.present[ki], h.val[ki] = true, v
		case 1:
			ki := vsym.IntRange("ki", 0, 1)
			vsym.Assert(e.Delete(h.K[ki]) == nil, "Delete failed")
			h.present[ki] = false
		case 2: // value at a fragment boundary: spill-over of exactly one full log record, +-1
			v := hSparse("big", wal.MaxRecordSize-4+vsym.IntRange("d", -1, 1))
			vsym.Assert(e.Put(h.K[0], v) == nil, "Put of a fragmented value failed")
			h.present[0], h.val[0] = true, v
		case 3: // batch of 2 (fits the log buffer) or 3 (does not) 30 KiB values
			// the batch writes its own keys (K2 and two fixed ones), so that it cannot hide the loss of an earlier write
			m := vsym.IntRange("batch", 2, 3)
			var b []*wal.Entry
			for j := 0; j < m; j++ {
				v := hSparse("bv", 30*1024)
				k := h.K[2]
				if j > 0 {
					k = []byte{0xff, 0xfe, byte(j)}
				}
				b = append(b, &wal.Entry{Type: wal.OpTypePut, Key: k, Value: v})
				if j == 0 {
					h.present[2], h.val[2] = true, v
				}
			}
			vsym.Assert(e.ApplyBatch(b) == nil, "ApplyBatch failed")
		}
	}
	vsym.Assert(e.Close() == nil, "Close failed")
	h.hOpen(false, false)
	for i := 0; i < 3; i++ {
		got, gerr := h.e.Get(h.K[i])
		vsym.Assert((gerr == nil) == h.present[i], "a cleanly closed database reopens with a key missing or a deleted key back")
		if gerr == nil && h.present[i] {
			vsym.Assert(len(got) == len(h.val[i]) && vsym.EqBytes(got, h.val[i]), "a cleanly closed database reopens with a different value")
		}
	}
	vsym.Reach("done")
}
