//go:build verif

package engine

import (
	"sync"
	"sync/atomic"

	"github.com/KevoDB/kevo/pkg/zzverif/vsym"
)

// c04Tx is one transaction of the schedule: a read of key r, then (if read-write) a write of key w, then a second
// read of key r2; finally commit or rollback.
type c04Tx struct {
	ro             bool
	r, w, r2       int
	del            bool
	val            []byte
	commit         bool
	begin, end     int64 // logical clock readings around the whole transaction
	got1, got2     []byte
	found1, found2 bool
	failed         bool
}

type c04State struct {
	present [2]bool
	val     [2][]byte
}

// c04Serial runs t against a model state: returns whether t's recorded reads are explained, and the state after it.
func c04Serial(s c04State, t *c04Tx) (bool, c04State) {
	ok := true
	exp := func(st c04State, k int, found bool, got []byte) bool {
		if found != st.present[k] {
			return false
		}
		if !found {
			return true
		}
		return vsym.EqBytes(got, st.val[k])
	}
	ok = vsym.And(ok, exp(s, t.r, t.found1, t.got1))
	own := s
	if !t.ro {
		if t.del {
			own.present[t.w] = false
		} else {
			own.present[t.w], own.val[t.w] = true, t.val
		}
	}
	ok = vsym.And(ok, exp(own, t.r2, t.found2, t.got2)) // a transaction sees its own uncommitted write
	if !t.ro && t.commit {
		return ok, own
	}
	return ok, s
}

// VerifC04_TwoTxSerializable: two concurrent transactions (read-write / read-only; read, write, read again; commit
// or rollback) over two keys with symbolic initial values. Every explored interleaving's recorded reads and the
// final state equal those of one of the two serial orders, and that order respects real time (a transaction that
// finished before the other began comes first). Includes: own writes are read back, uncommitted writes of the
// other are never seen, a read-only transaction reads one committed state.
func VerifC04_TwoTxSerializable() {
	h := &hEnv{}
	h.hKeys(2)
	h.hOpen(true, false)
	e := h.e
	var init c04State
	for k := 0; k < 2; k++ {
		v := vsym.Bytes("iv", 1)
		vsym.Assert(e.Put(h.K[k], v) == nil, "setup put failed")
		init.present[k], init.val[k] = true, v
	}
	var txs [2]c04Tx
	for i := range txs {
		t := &txs[i]
		t.ro = vsym.IntRange("ro", 0, 1) == 1
		t.r = vsym.IntRange("r", 0, 1)
		t.r2 = 1 - t.r // a read-only transaction reads both keys: they must come from one committed state
		if !t.ro {
			t.w = vsym.IntRange("w", 0, 1)
			t.r2 = t.w // a read-write transaction reads back what it wrote
			t.del = vsym.IntRange("del", 0, 1) == 1
			if !t.del {
				t.val = vsym.Bytes("tv", 1)
			}
			t.commit = vsym.IntRange("commit", 0, 1) == 1
		}
	}
	var clock int64
	var wg sync.WaitGroup
	wg.Add(2)
	for i := range txs {
		t := &txs[i]
		go func() {
			defer wg.Done()
			t.begin = atomic.AddInt64(&clock, 1)
			tx, err := e.BeginTransaction(t.ro)
			if err != nil {
				t.failed = true
				return
			}
			g, gerr := tx.Get(h.K[t.r])
			t.got1, t.found1 = g, gerr == nil
			if !t.ro {
				if t.del {
					t.failed = t.failed || tx.Delete(h.K[t.w]) != nil
				} else {
					t.failed = t.failed || tx.Put(h.K[t.w], t.val) != nil
				}
			}
			g, gerr = tx.Get(h.K[t.r2])
			t.got2, t.found2 = g, gerr == nil
			if !t.ro && t.commit {
				t.failed = t.failed || tx.Commit() != nil
			} else {
				t.failed = t.failed || tx.Rollback() != nil
			}
			t.end = atomic.AddInt64(&clock, 1)
		}()
	}
	wg.Wait()
	vsym.Assert(!txs[0].failed && !txs[1].failed, "a transaction operation failed")
	var fin c04State
	for k := 0; k < 2; k++ {
		g, gerr := e.Get(h.K[k])
		fin.present[k], fin.val[k] = gerr == nil, g
	}
	sameState := func(a, b c04State) bool {
		ok := true
		for k := 0; k < 2; k++ {
			if a.present[k] != b.present[k] {
				return false
			}
			if a.present[k] {
				ok = vsym.And(ok, vsym.EqBytes(a.val[k], b.val[k]))
			}
		}
		return ok
	}
	okA, s1 := c04Serial(init, &txs[0])
	okAB, s2 := c04Serial(s1, &txs[1])
	order01 := vsym.And(vsym.And(okA, okAB), sameState(s2, fin))
	okB, s3 := c04Serial(init, &txs[1])
	okBA, s4 := c04Serial(s3, &txs[0])
	order10 := vsym.And(vsym.And(okB, okBA), sameState(s4, fin))
	// real time: a transaction that ended before the other began must come first
	if txs[0].end < txs[1].begin {
		order10 = false
	}
	if txs[1].end < txs[0].begin {
		order01 = false
	}
	vsym.Assert(vsym.Or(order01, order10), "no serial order consistent with real time explains the transactions' reads and the final state")
	vsym.Reach("done")
}
