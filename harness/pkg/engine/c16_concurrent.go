//go:build verif

package engine

import (
	"sync"

	"github.com/KevoDB/kevo/pkg/wal"
	"github.com/KevoDB/kevo/pkg/zzverif/vsym"
)

// VerifC16_ApplyVsClientWrite: on a read-only engine, a replicated operation is applied through one of the Internal
// entry points while a client tries to write (put, delete, batch, read-write transaction) and asks for the node's
// status. Every client write is refused with the read-only error, the client's key never appears, the replicated
// operation takes effect, and the read-only status is reported truthfully throughout.
func VerifC16_ApplyVsClientWrite() {
	h := &hEnv{}
	h.hKeys(2)
	h.hOpen(true, false)
	e := h.e
	rk, ck := h.K[0], h.K[1] // replicated key, client key
	vsym.Assert(e.Put(rk, vsym.Bytes("v0", 1)) == nil, "setup put failed")
	e.SetReadOnly(true)
	rv := vsym.Bytes("rv", 1)
	which := vsym.IntRange("apply", 0, 2)
	client := vsym.IntRange("client", 0, 3)
	var wg sync.WaitGroup
	wg.Add(2)
	var aerr, cerr error
	sawWritable := false
	go func() {
		defer wg.Done()
		switch which {
		case 0:
			aerr = e.PutInternal(rk, rv)
		case 1:
			aerr = e.DeleteInternal(rk)
		case 2:
			aerr = e.ApplyBatchInternal([]*wal.Entry{{Type: wal.OpTypePut, Key: rk, Value: rv}})
		}
	}()
	go func() {
		defer wg.Done()
		cv := vsym.Bytes("cv", 1)
		switch client {
		case 0:
			cerr = e.Put(ck, cv)
		case 1:
			cerr = e.Delete(rk)
		case 2:
			cerr = e.ApplyBatch([]*wal.Entry{{Type: wal.OpTypePut, Key: ck, Value: cv}})
		case 3:
			tx, err := e.BeginTransaction(false)
			if err != nil {
				cerr = err
			} else {
				cerr = tx.Put(ck, cv)
				if cerr == nil {
					cerr = tx.Commit()
				} else {
					tx.Rollback()
				}
			}
		}
		if !e.IsReadOnly() {
			sawWritable = true
		}
	}()
	wg.Wait()
	vsym.Assert(aerr == nil, "applying a replicated operation failed on a replica")
	vsym.Assert(cerr != nil, "a client write was accepted on a replica while a replicated operation was being applied")
	vsym.Assert(!sawWritable, "a replica reported itself writable while a replicated operation was being applied")
	_, gerr := e.Get(ck)
	vsym.Assert(gerr != nil, "a client's write appeared on a replica")
	got, gerr := e.Get(rk)
	if which == 1 {
		vsym.Assert(gerr != nil, "the replicated delete did not take effect (or a refused client delete hid it)")
	} else {
		vsym.Assert(gerr == nil && vsym.EqBytes(got, rv), "the replicated write did not take effect")
	}
	vsym.Assert(e.IsReadOnly(), "the read-only flag was lost")
	// refused requests hold nothing back: reads inside a transaction still work
	vsym.Assert(vsym.Held(e.txManager.GetRWLock()) == 0, "a refused client write left the database lock held")
	rtx, err := e.BeginTransaction(true)
	vsym.Assert(err == nil, "a read-only transaction cannot begin on a replica after a refused write")
	if err == nil {
		rtx.Rollback()
	}
	vsym.Reach("done")
}
