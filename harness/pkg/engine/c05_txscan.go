//go:build verif

package engine

import "github.com/KevoDB/kevo/pkg/zzverif/vsym"

// VerifC05_TxScanOverlay: a committed state over two (thorough: three) symbolic keys (each absent, in the memtable, or flushed into an
// SSTable; possibly deleted again), then a read-write transaction that puts and/or deletes some of them without
// committing. Inside the transaction a full scan, a range scan [start,end), Seek(t) and SeekToLast yield exactly
// the non-deleted keys of the requested set with the transaction's own writes and deletes overlaid, each once, in
// strictly ascending order, each with its latest value.
func VerifC05_TxScanOverlay() {
	h := &hEnv{}
	nk := 2
	if vsym.Thorough() {
		nk = 3
	}
	h.hKeys(nk)
	h.hOpen(true, false)
	e := h.e
	for i := 0; i < nk; i++ {
		switch vsym.IntRange("base", 0, 2) {
		case 1:
			v := vsym.Bytes("v", 1)
			vsym.Assert(e.Put(h.K[i], v) == nil, "Put failed")
			h.present[i], h.val[i] = true, v
		case 2:
			v := vsym.Bytes("v", 1)
			vsym.Assert(e.Put(h.K[i], v) == nil, "Put failed")
			vsym.Assert(e.FlushImMemTables() == nil, "Flush failed")
			h.present[i], h.val[i] = true, v
		}
	}
	tx, err := e.BeginTransaction(false)
	vsym.Assert(err == nil, "BeginTransaction failed")
	nops := vsym.IntRange("txops", 0, 2)
	for j := 0; j < nops; j++ {
		ki := vsym.IntRange("tki", 0, nk-1)
		if vsym.IntRange("top", 0, 1) == 0 {
			v := vsym.Bytes("tv", 1)
			vsym.Assert(tx.Put(h.K[ki], v) == nil, "tx.Put failed")
			h.present[ki], h.val[ki] = true, v
		} else {
			vsym.Assert(tx.Delete(h.K[ki]) == nil, "tx.Delete failed")
			h.present[ki] = false
		}
	}
	lo, hi := 0, nk
	it := tx.NewIterator()
	mode := vsym.IntRange("mode", 0, 3)
	if mode == 1 {
		lo = vsym.IntRange("lo", 0, nk-1)
		hi = vsym.IntRange("hi", lo, nk-1)
		it = tx.NewRangeIterator(h.K[lo], h.K[hi])
	}
	nextLive := func(i int) int {
		for i < hi && !h.present[i] {
			i++
		}
		return i
	}
	switch mode {
	case 0, 1:
		next := lo
		for it.SeekToFirst(); it.Valid(); it.Next() {
			if it.IsTombstone() {
				continue
			}
			next = nextLive(next)
			vsym.Assert(next < hi, "a scan inside a transaction yields a key that is deleted, outside the range, or repeated")
			vsym.Assert(vsym.EqBytes(it.Key(), h.K[next]), "a scan inside a transaction yields a wrong key (missing, repeated or out of order)")
			vsym.Assert(vsym.EqBytes(it.Value(), h.val[next]), "a scan inside a transaction yields a stale value (the transaction's own write is not overlaid)")
			next++
		}
		vsym.Assert(nextLive(next) == hi, "a scan inside a transaction misses a live key")
	case 2:
		t := vsym.Bytes("t", 1)
		ok := it.Seek(t)
		for ok && it.Valid() && it.IsTombstone() {
			ok = it.Next()
		}
		want := -1
		for i := 0; i < nk; i++ {
			if h.present[i] && !vsym.LessBytes(h.K[i], t) {
				want = i
				break
			}
		}
		if want < 0 {
			vsym.Assert(!ok || !it.Valid(), "Seek inside a transaction finds a key although no live key is >= the target")
		} else {
			vsym.Assert(ok && it.Valid(), "Seek inside a transaction finds nothing although a live key is >= the target")
			vsym.Assert(vsym.EqBytes(it.Key(), h.K[want]), "Seek inside a transaction does not land on the smallest live key >= the target")
			vsym.Assert(vsym.EqBytes(it.Value(), h.val[want]), "Seek inside a transaction yields a stale value")
		}
	case 3:
		it.SeekToLast()
		want := -1
		for i := nk - 1; i >= 0; i-- {
			if h.present[i] {
				want = i
				break
			}
		}
		if want >= 0 && it.Valid() && !it.IsTombstone() {
			vsym.Assert(vsym.EqBytes(it.Key(), h.K[want]), "SeekToLast inside a transaction does not land on the greatest live key")
			vsym.Assert(vsym.EqBytes(it.Value(), h.val[want]), "SeekToLast inside a transaction yields a stale value")
		}
		if want >= 0 {
			vsym.Assert(it.Valid(), "SeekToLast inside a transaction is invalid although live keys exist")
		}
	}
	tx.Rollback()
	vsym.Reach("done")
}
