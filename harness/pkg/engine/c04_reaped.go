//go:build verif

package engine

import (
	"sync"

	"github.com/KevoDB/kevo/pkg/zzverif/vsym"
)

// VerifC04_ReaderEndedByAnotherGoroutine: a transaction (read-only or read-write) has read a key; while it reads the
// key again, another goroutine ends it (what the registry's stale-transaction sweep, connection cleanup and graceful
// shutdown do) and a writer that was waiting for the database lock overwrites the key and commits. The second read
// either fails because the transaction is over or returns what the first read returned: a transaction never reads
// two different committed states, however it is ended.
func VerifC04_ReaderEndedByAnotherGoroutine() {
	h := &hEnv{}
	h.hKeys(2)
	h.hOpen(true, false)
	e := h.e
	v0 := vsym.Bytes("v0", 1)
	vsym.Assert(e.Put(h.K[0], v0) == nil, "setup put failed")
	ro := vsym.IntRange("readOnly", 0, 1) == 1
	t1, err := e.BeginTransaction(ro)
	vsym.Assert(err == nil, "BeginTransaction failed")
	a, aerr := t1.Get(h.K[0])
	vsym.Assert(aerr == nil && vsym.EqBytes(a, v0), "the first read does not return the committed value")
	v2 := vsym.Bytes("v2", 1)
	vsym.Assume(!vsym.EqBytes(v2, v0))
	var b []byte
	var berr error
	var wg sync.WaitGroup
	wg.Add(2)
	go func() {
		defer wg.Done()
		b, berr = t1.Get(h.K[0])
	}()
	go func() {
		defer wg.Done()
		t1.Rollback()
		t2, err := e.BeginTransaction(false)
		if err != nil {
			return
		}
		t2.Put(h.K[0], v2)
		t2.Commit()
	}()
	wg.Wait()
	if berr == nil {
		vsym.Assert(vsym.EqBytes(b, v0), "a transaction read two different committed states of a key (a later transaction's write leaked into it)")
	}
	got, gerr := e.Get(h.K[0])
	vsym.Assert(gerr == nil && vsym.EqBytes(got, v2), "the writer's committed value is not the final value")
	vsym.Reach("done")
}
