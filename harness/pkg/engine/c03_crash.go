//go:build verif

package engine

import (
	"github.com/KevoDB/kevo/pkg/wal"
	"github.com/KevoDB/kevo/pkg/zzverif/vsym"
)

// VerifC03_CrashInCommit: a transaction of two or three puts on distinct keys is committed and the process dies at
// any file-system step of the commit (between steps, inside the log write with a torn tail, before or after the
// sync), in both crash models. After recovery either every key of the transaction is there or none is; an
// acknowledged commit is there completely. Shapes: small values, and values that fill log records completely
// (the batch then sits exactly at the log buffer's capacity), and a transaction that fits the log buffer but not
// the room an earlier unsynced write left in it (log sync modes none/batch).
func VerifC03_CrashInCommit() {
	h := &hEnv{}
	h.hKeys(3)
	nkeys := vsym.IntRange("keys", 2, 3)
	var vals [3][]byte
	shape := vsym.IntRange("shape", 0, 2)
	if shape == 0 {
		for i := 0; i < nkeys; i++ {
			vals[i] = vsym.Bytes("v", 1)
		}
	} else if shape == 2 {
		// an unsynced log mode with an earlier write still pending in the log buffer: the transaction fits the
		// buffer, but not the room that write left in it
		nkeys = 2
		h.sync = 1 + vsym.IntRange("syncmode", 0, 1)
		vals[0] = hSparse("v", 20000)
		vals[1] = hSparse("v", 20000)
	} else {
		nkeys = 2
		// payload = 1+8+4+len(key)+4+len(value): the largest value one record can hold, less d
		d := vsym.IntRange("d", 0, 1)
		vals[0] = hSparse("v", wal.MaxRecordSize-17-len(h.K[0])-d)
		vals[1] = hSparse("v", wal.MaxRecordSize-17-len(h.K[1]))
	}
	mode := vsym.IntRange("mode", 1, 2)
	acked := 0
	h.hOpen(true, false)
	vsym.Durable() // the database was created long ago; the crash concerns the commit
	if shape == 2 {
		vsym.Assert(h.e.Put([]byte{0xff, 0xfe}, hSparse("pending", 30000)) == nil, "Put failed")
	}
	vsym.CrashRegion(mode, func() {
		tx, err := h.e.BeginTransaction(false)
		if err != nil {
			return
		}
		for i := 0; i < nkeys; i++ {
			if tx.Put(h.K[i], vals[i]) != nil {
				return
			}
		}
		if tx.Commit() == nil {
			acked = 1
		}
	}, &acked)
	// batches carry no framing in the log format: a crash that tears the batch's write (or a power loss that
	// trims its unsynced bytes) can leave a prefix of its records, which recovery replays. Recorded finding.
	vsym.Region("KF-C03-torn-batch-write", vsym.CrashKind() >= 2)
	h.hOpen(false, false)
	present := 0
	for i := 0; i < nkeys; i++ {
		got, gerr := h.e.Get(h.K[i])
		if gerr == nil {
			present++
			vsym.Assert(len(got) == len(vals[i]) && vsym.EqBytes(got, vals[i]), "recovered value of a transaction key differs from what was committed")
		}
	}
	vsym.Observe("present", present)
	vsym.Assert(present == 0 || present == nkeys, "crash recovery shows a strict subset of a transaction's writes")
	if acked == 1 && shape != 2 { // the unsynced log modes do not promise that an acknowledged commit survives a crash
		vsym.Assert(present == nkeys, "an acknowledged commit is missing after crash recovery")
	}
	vsym.Reach("done")
}

// hSparse returns n concrete pattern bytes with symbolic probes at both ends.
func hSparse(name string, n int) []byte {
	b := make([]byte, n)
	for i := range b {
		b[i] = byte(i*7 + i>>8)
	}
	if n > 0 {
		b[0] = vsym.Byte(name)
		b[n-1] = vsym.Byte(name)
	}
	return b
}

// VerifC03_CrashInLargeCommit: a transaction of 36 puts of 30 000 bytes each - more than 1 MiB, larger than the log
// buffer and than every internal budget of the write path (quick tier: 3 puts, 90 KB, larger than the log buffer) -
// is committed and the process dies at any file-system
// step of the commit (both crash models). After recovery all keys are there or none; an acknowledged commit is
// there completely. (The torn single write is the recorded finding of VerifC03_CrashInCommit.)
func VerifC03_CrashInLargeCommit() {
	h := &hEnv{}
	nkeys := 3 // quick tier: 90 KB, larger than the log buffer
	if vsym.Thorough() {
		nkeys = 36
	}
	var keys, vals [36][]byte
	for i := 0; i < nkeys; i++ {
		keys[i] = []byte{0xE0, byte(i)}
		vals[i] = make([]byte, 30000)
		for j := range vals[i] {
			vals[i][j] = byte(j*11 + i)
		}
		vals[i][0] = vsym.Byte("v")
	}
	mode := vsym.IntRange("mode", 1, 2)
	acked := 0
	h.hOpen(true, false)
	vsym.Durable()
	vsym.CrashRegion(mode, func() {
		tx, err := h.e.BeginTransaction(false)
		if err != nil {
			return
		}
		for i := 0; i < nkeys; i++ {
			if tx.Put(keys[i], vals[i]) != nil {
				return
			}
		}
		if tx.Commit() == nil {
			acked = 1
		}
	}, &acked)
	vsym.Region("KF-C03-torn-batch-write", vsym.CrashKind() >= 2)
	h.hOpen(false, false)
	present := 0
	for i := 0; i < nkeys; i++ {
		got, gerr := h.e.Get(keys[i])
		if gerr == nil {
			present++
			vsym.Assert(len(got) == len(vals[i]) && vsym.EqBytes(got, vals[i]), "recovered value of a transaction key differs from what was committed")
		}
	}
	vsym.Observe("present", present)
	vsym.Assert(present == 0 || present == nkeys, "crash recovery shows a strict subset of a large transaction's writes")
	if acked == 1 {
		vsym.Assert(present == nkeys, "an acknowledged large commit is missing after crash recovery")
	}
	vsym.Reach("done")
}
