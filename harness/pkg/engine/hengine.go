//go:build verif

package engine

import (
	"os"
	"path/filepath"

	"github.com/KevoDB/kevo/pkg/config"
	"github.com/KevoDB/kevo/pkg/wal"
	"github.com/KevoDB/kevo/pkg/zzverif/vsym"
)

// H-engine: a symbolic operation program against the embedded API (EngineFacade opened by the real
// NewEngineFacade on a database directory), with a last-write-wins reference model over a small universe of
// symbolic keys. Shared by the C01/C03/C05/C12 harnesses of this package.

const (
	hPut = iota
	hDelete
	hTx
	hFlush
	hReopen
	hBatch
	hCompact
	hPutFlush // put immediately followed by a flush (one step, to reach deep table arrangements with short programs)
	hDelFlush // delete immediately followed by a flush
	hRetire   // close, remove the (fully flushed) log files like WAL retention would, reopen: reads must come from SSTables
	hNumOps
)

type hEnv struct {
	dir     string
	e       *EngineFacade
	nk      int
	K       [3][]byte
	present [3]bool
	val     [3][]byte
	flushes int
	reopens int
	retires int
	maxMem  int  // MaxMemTables to store in the manifest at creation (0 = default); also the level-0 compaction trigger
	wk      int  // number of keys single writes may address (0 = all)
	sync    int  // WALSyncMode + 1 to store in the manifest at creation (0 = default)
	dirty   bool // a write happened since the last flush (its data may exist only in memtable + log)
	steps   []string
}

// hKeys creates the key universe K0<K1(<K2): K0,K1 one byte, K2 two bytes (it may or may not extend K1).
func (h *hEnv) hKeys(nk int) {
	h.nk = nk
	h.K[0], h.K[1] = vsym.Bytes("K0", 1), vsym.Bytes("K1", 1)
	vsym.Assume(vsym.LessBytes(h.K[0], h.K[1]))
	if nk > 2 {
		h.K[2] = vsym.Bytes("K2", 2)
		vsym.Assume(vsym.LessBytes(h.K[1], h.K[2]))
	}
}

// hOpen opens (or reopens) the database. On first open a configuration with the requested memtable size is
// stored the way a user would store it (SaveManifest), so that NewEngineFacade itself loads it.
func (h *hEnv) hOpen(first bool, smallMem bool) {
	if first {
		h.dir = vsym.Dir()
		if smallMem || h.sync != 0 || h.maxMem != 0 {
			cfg := config.NewDefaultConfig(h.dir)
			if smallMem {
				cfg.MemTableSize = 1 // every write fills the table: versions spread over immutable tables
			}
			if h.maxMem != 0 {
				cfg.MaxMemTables = h.maxMem
			}
			if h.sync != 0 {
				cfg.WALSyncMode = config.SyncMode(h.sync - 1)
				cfg.WALSyncBytes = 1 << 30
			}
			vsym.Assert(cfg.SaveManifest(h.dir) == nil, "SaveManifest failed")
		}
	}
	e, err := NewEngineFacade(h.dir)
	vsym.Assert(err == nil, "open failed")
	h.e = e
}

func (h *hEnv) wkeys() int {
	if h.wk > 0 && h.wk < h.nk {
		return h.wk
	}
	return h.nk
}

// hValue picks the shape of a put value: one symbolic byte, empty, nil, or (thorough) two symbolic bytes.
func hValue(maxKind int) []byte {
	switch vsym.IntRange("vk", 0, maxKind) {
	case 1:
		return []byte{}
	case 2:
		return nil
	case 3:
		return vsym.Bytes("v2", 2)
	}
	return vsym.Bytes("v", 1)
}

// hStep executes one operation chosen among the ops allowed by mask and updates the model.
func (h *hEnv) hStep(mask int, maxVK int) {
	var allowed []int
	for op := 0; op < hNumOps; op++ {
		if mask&(1<<op) != 0 {
			if op == hFlush && h.flushes >= 2 {
				continue
			}
			if op == hReopen && h.reopens >= 2 {
				continue
			}
			if op == hRetire && (h.dirty || h.retires >= 2) {
				continue
			}
			allowed = append(allowed, op)
		}
	}
	op := allowed[vsym.IntRange("op", 0, len(allowed)-1)]
	e := h.e
	switch op {
	case hPut:
		ki := vsym.IntRange("ki", 0, h.nk-1)
		v := hValue(maxVK)
		vsym.Assert(e.Put(h.K[ki], v) == nil, "Put failed")
		h.present[ki], h.val[ki] = true, v
		h.dirty = true
	case hPutFlush:
		ki := vsym.IntRange("ki", 0, h.wkeys()-1)
		v := hValue(maxVK)
		vsym.Assert(e.Put(h.K[ki], v) == nil, "Put failed")
		h.present[ki], h.val[ki] = true, v
		vsym.Assert(e.FlushImMemTables() == nil, "Flush failed")
		h.dirty = false
	case hDelFlush:
		ki := vsym.IntRange("ki", 0, h.wkeys()-1)
		vsym.Assert(e.Delete(h.K[ki]) == nil, "Delete failed")
		h.present[ki] = false
		vsym.Assert(e.FlushImMemTables() == nil, "Flush failed")
		h.dirty = false
	case hDelete:
		ki := vsym.IntRange("ki", 0, h.nk-1)
		vsym.Assert(e.Delete(h.K[ki]) == nil, "Delete failed")
		h.present[ki] = false
		h.dirty = true
	case hTx:
		tx, err := e.BeginTransaction(false)
		vsym.Assert(err == nil, "BeginTransaction failed")
		tp, tv := h.present, h.val
		m := vsym.IntRange("txn", 1, 2)
		for j := 0; j < m; j++ {
			ki := vsym.IntRange("tki", 0, h.nk-1)
			if vsym.IntRange("top", 0, 1) == 0 {
				v := hValue(maxVK)
				vsym.Assert(tx.Put(h.K[ki], v) == nil, "tx.Put failed")
				tp[ki], tv[ki] = true, v
			} else {
				vsym.Assert(tx.Delete(h.K[ki]) == nil, "tx.Delete failed")
				tp[ki] = false
			}
		}
		if vsym.IntRange("commit", 0, 1) == 1 {
			vsym.Assert(tx.Commit() == nil, "Commit failed")
			h.present, h.val = tp, tv
			h.dirty = true
		} else {
			vsym.Assert(tx.Rollback() == nil, "Rollback failed")
		}
	case hFlush:
		vsym.Assert(e.FlushImMemTables() == nil, "Flush failed")
		h.flushes++
		h.dirty = false
	case hReopen:
		vsym.Assert(e.Close() == nil, "Close failed")
		h.hOpen(false, false)
		h.reopens++
	case hBatch:
		// a two-entry batch through the embedded batch API
		var b []*wal.Entry
		tp, tv := h.present, h.val
		for j := 0; j < 2; j++ {
			ki := vsym.IntRange("bki", 0, h.nk-1)
			if vsym.IntRange("bop", 0, 1) == 0 {
				v := vsym.Bytes("bv", 1)
				b = append(b, &wal.Entry{Type: wal.OpTypePut, Key: h.K[ki], Value: v})
				tp[ki], tv[ki] = true, v
			} else {
				b = append(b, &wal.Entry{Type: wal.OpTypeDelete, Key: h.K[ki]})
				tp[ki] = false
			}
		}
		vsym.Assert(e.ApplyBatch(b) == nil, "ApplyBatch failed")
		h.present, h.val = tp, tv
		h.dirty = true
	case hCompact:
		vsym.Assert(e.TriggerCompaction() == nil, "TriggerCompaction failed")
	case hRetire:
		vsym.Assert(e.Close() == nil, "Close failed")
		h.retireLogs()
		h.hOpen(false, false)
		h.retires++
	}
}

// hProbe reads one symbolic key (it may be any key of the universe or none of them) and compares with the model.
func (h *hEnv) hProbe() {
	var q []byte
	if vsym.IntRange("qlen", 1, 1+(h.nk-2)) == 1 {
		q = vsym.Bytes("q", 1)
	} else {
		q = vsym.Bytes("q2", 2)
	}
	got, err := h.e.Get(q)
	found := err == nil
	vsym.Observe("found", found)
	if found {
		vsym.Observe("value", got)
	}
	expect := false
	for i := 0; i < h.nk; i++ {
		expect = vsym.Or(expect, vsym.And(h.present[i], vsym.EqBytes(q, h.K[i])))
	}
	if found {
		vsym.Assert(expect, "get finds a key that was never written or whose latest write is a delete")
		ok := true
		for i := 0; i < h.nk; i++ {
			ok = vsym.And(ok, vsym.Implies(vsym.And(h.present[i], vsym.EqBytes(q, h.K[i])), vsym.EqBytes(got, h.val[i])))
		}
		vsym.Assert(ok, "get returns bytes that are not the latest put of the key")
	} else {
		vsym.Assert(vsym.Not(expect), "get does not find a key whose latest write is a put")
	}
}

// retireLogs removes every log file, like WAL retention removes files whose contents are all flushed.
func (h *hEnv) retireLogs() {
	ents, err := os.ReadDir(filepath.Join(h.dir, "wal"))
	vsym.Assert(err == nil, "ReadDir(wal) failed")
	for _, en := range ents {
		if !en.IsDir() && filepath.Ext(en.Name()) == ".wal" {
			vsym.Assert(os.Remove(filepath.Join(h.dir, "wal", en.Name())) == nil, "removing a retired log file failed")
		}
	}
}

// hProbeKey reads one key of the universe and compares with the model.
func (h *hEnv) hProbeKey(i int) {
	got, err := h.e.Get(h.K[i])
	vsym.Assert((err == nil) == h.present[i], "a key reads differently than its latest write says (lost, or a deleted key back)")
	if err == nil && h.present[i] {
		vsym.Assert(vsym.EqBytes(got, h.val[i]), "a key reads an older value than its latest write")
	}
}

// hScan runs a full scan and compares with the model: exactly the live keys, once, ascending, latest values.
func (h *hEnv) hScan() {
	it, err := h.e.GetIterator()
	vsym.Assert(err == nil, "GetIterator failed")
	next := 0
	for it.SeekToFirst(); it.Valid(); it.Next() {
		if it.IsTombstone() {
			continue
		}
		for next < h.nk && !h.present[next] {
			next++
		}
		vsym.Assert(next < h.nk, "scan yields a key that is not live (deleted, duplicated or invented)")
		vsym.Assert(vsym.EqBytes(it.Key(), h.K[next]), "scan key differs (missing, duplicated or out of order)")
		vsym.Assert(vsym.EqBytes(it.Value(), h.val[next]), "scan returns a stale value")
		next++
	}
	for next < h.nk && !h.present[next] {
		next++
	}
	vsym.Assert(next == h.nk, "scan misses a live key")
}

// hDeepPrelude writes every key of the universe (symbolic values), flushes, and pushes the table down by whole-range
// compactions until it sits in the given level.
func (h *hEnv) hDeepPrelude(level int) {
	for i := 0; i < h.nk; i++ {
		v := vsym.Bytes("pv", 1)
		vsym.Assert(h.e.Put(h.K[i], v) == nil, "Put failed")
		h.present[i], h.val[i] = true, v
	}
	vsym.Assert(h.e.FlushImMemTables() == nil, "Flush failed")
	for l := 0; l < level; l++ {
		vsym.Assert(h.e.CompactRange(h.K[0], h.K[h.nk-1]) == nil, "CompactRange failed")
	}
	h.dirty = false
}
