//go:build verif

package engine

import (
	"sync"

	"github.com/KevoDB/kevo/pkg/zzverif/vsym"
)

// VerifC04_ReadOnlyTxDuringFlush: a key is written into an engine with a 1-byte memtable (the write seals the table
// and hands it to the flusher); a read-only transaction then reads the key twice (or scans) while the flush of that
// table runs. Nothing is written meanwhile, so the transaction reads one and the same committed state: the value is
// found both times, wherever the table is (sealed in memory, being written out, registered as SSTable).
func VerifC04_ReadOnlyTxDuringFlush() {
	h := &hEnv{}
	h.hKeys(2)
	h.hOpen(true, true)
	e := h.e
	for i := 0; i < 2; i++ {
		v := vsym.Bytes("v", 1)
		vsym.Assert(e.Put(h.K[i], v) == nil, "Put failed")
		h.present[i], h.val[i] = true, v
	}
	scan := vsym.IntRange("scan", 0, 1) == 1
	var wg sync.WaitGroup
	wg.Add(2)
	go func() { defer wg.Done(); e.FlushImMemTables() }()
	go func() {
		defer wg.Done()
		tx, err := e.BeginTransaction(true)
		vsym.Assert(err == nil, "read-only BeginTransaction failed")
		if err != nil {
			return
		}
		defer tx.Rollback()
		if scan {
			it := tx.NewIterator()
			n := 0
			for it.SeekToFirst(); it.Valid(); it.Next() {
				if it.IsTombstone() {
					continue
				}
				vsym.Assert(n < 2 && vsym.EqBytes(it.Key(), h.K[n]) && vsym.EqBytes(it.Value(), h.val[n]), "a scan inside a read-only transaction during a flush yields another key or value than the committed state holds")
				n++
			}
			vsym.Assert(n == 2, "a scan inside a read-only transaction during a flush misses a committed key")
			return
		}
		for round := 0; round < 2; round++ {
			for i := 0; i < 2; i++ {
				got, gerr := tx.Get(h.K[i])
				vsym.Assert(gerr == nil && vsym.EqBytes(got, h.val[i]), "a read-only transaction does not read one and the same committed state while a flush runs (key missing or older value)")
			}
		}
	}()
	wg.Wait()
	vsym.Reach("done")
}
