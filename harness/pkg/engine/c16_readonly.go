//go:build verif

package engine

import (
	"github.com/KevoDB/kevo/pkg/wal"
	"github.com/KevoDB/kevo/pkg/zzverif/vsym"
)

// VerifC16_ReadOnlyRejects: on a read-only engine every client mutator fails and changes nothing,
// while the *Internal bypass used by replication still applies.
func VerifC16_ReadOnlyRejects() {
	e, err := NewEngineFacade(vsym.Dir())
	vsym.Assert(err == nil, "open failed")
	K := [2][]byte{vsym.Bytes("K0", 1), vsym.Bytes("K1", 1)}
	vsym.Assume(K[0][0] < K[1][0])
	v0 := vsym.Bytes("v0", 1)
	vsym.Assert(e.Put(K[0], v0) == nil, "pre put failed")
	e.SetReadOnly(true)
	vsym.Assert(e.IsReadOnly(), "IsReadOnly must report true")
	ki := vsym.IntRange("ki", 0, 1)
	nv := vsym.Bytes("nv", 1)
	switch vsym.IntRange("op", 0, 4) {
	case 0:
		vsym.Assert(e.Put(K[ki], nv) != nil, "Put accepted on a read-only engine")
	case 1:
		vsym.Assert(e.Delete(K[ki]) != nil, "Delete accepted on a read-only engine")
	case 2:
		vsym.Assert(e.ApplyBatch([]*wal.Entry{{Type: wal.OpTypePut, Key: K[ki], Value: nv}}) != nil, "ApplyBatch accepted on a read-only engine")
	case 3:
		tx, err := e.BeginTransaction(false)
		if err == nil {
			perr := tx.Put(K[ki], nv)
			derr := tx.Delete(K[ki])
			vsym.Assert(perr != nil && derr != nil, "read-write transaction usable on a read-only engine")
			tx.Commit()
		}
	case 4:
		tx, err := e.BeginTransaction(true)
		vsym.Assert(err == nil, "read-only transaction refused on a replica")
		if err == nil {
			vsym.Assert(tx.Put(K[ki], nv) != nil, "read-only transaction accepted a write")
			tx.Rollback()
		}
	}
	// a refused request holds nothing back: the database lock is free and reads inside a transaction still work
	vsym.Assert(vsym.Held(e.txManager.GetRWLock()) == 0, "a refused mutation left the database lock held")
	// data unchanged
	got, gerr := e.Get(K[0])
	vsym.Assert(gerr == nil && vsym.EqBytes(got, v0), "data changed by a rejected mutation")
	_, gerr = e.Get(K[1])
	vsym.Assert(gerr != nil, "data created by a rejected mutation")
	// the replication bypass still works and reads are served
	vsym.Assert(e.PutInternal(K[1], nv) == nil, "PutInternal failed on a read-only engine")
	got, gerr = e.Get(K[1])
	vsym.Assert(gerr == nil && vsym.EqBytes(got, nv), "replicated write not readable")
	vsym.Assert(e.DeleteInternal(K[0]) == nil, "DeleteInternal failed on a read-only engine")
	_, gerr = e.Get(K[0])
	vsym.Assert(gerr != nil, "replicated delete not applied")
	vsym.Assert(e.IsReadOnly(), "read-only flag lost")
	vsym.Reach("done")
}
