//go:build verif

package engine

import (
	"sync"

	"github.com/KevoDB/kevo/pkg/zzverif/vsym"
)

// VerifC03_CommitVsReader: one client commits a transaction that overwrites two keys while another client reads
// both keys with plain gets (in either order), or inside a read-only transaction. The reader never sees the
// transaction's write to the key it reads first and the old value of the key it reads second: a strict subset of
// a committed transaction is never observable.
func VerifC03_CommitVsReader() {
	h := &hEnv{}
	h.hKeys(2)
	h.hOpen(true, false)
	e := h.e
	old0, old1 := vsym.Bytes("old0", 1), vsym.Bytes("old1", 1)
	new0, new1 := vsym.Bytes("new0", 1), vsym.Bytes("new1", 1)
	vsym.Assume(vsym.Not(vsym.EqBytes(old0, new0)))
	vsym.Assume(vsym.Not(vsym.EqBytes(old1, new1)))
	vsym.Assert(e.Put(h.K[0], old0) == nil && e.Put(h.K[1], old1) == nil, "setup puts failed")
	order := vsym.IntRange("readorder", 0, 1)
	inTx := vsym.IntRange("readerInTx", 0, 1) == 1
	var wg sync.WaitGroup
	wg.Add(2)
	go func() {
		defer wg.Done()
		tx, err := e.BeginTransaction(false)
		vsym.Assert(err == nil, "BeginTransaction failed")
		vsym.Assert(tx.Put(h.K[0], new0) == nil && tx.Put(h.K[1], new1) == nil, "tx.Put failed")
		vsym.Assert(tx.Commit() == nil, "Commit failed")
	}()
	go func() {
		defer wg.Done()
		get := e.Get
		if inTx {
			rtx, err := e.BeginTransaction(true)
			vsym.Assert(err == nil, "read-only BeginTransaction failed")
			get = rtx.Get
			defer rtx.Rollback()
		}
		olds, news := [2][]byte{old0, old1}, [2][]byte{new0, new1}
		a, b := order, 1-order
		ra, erra := get(h.K[a])
		rb, errb := get(h.K[b])
		vsym.Assert(erra == nil && errb == nil, "a key that always exists was not found during a concurrent commit")
		// each read returns the old or the new value of its key
		vsym.Assert(vsym.Or(vsym.EqBytes(ra, olds[a]), vsym.EqBytes(ra, news[a])), "a read returned bytes that were never written to its key")
		vsym.Assert(vsym.Or(vsym.EqBytes(rb, olds[b]), vsym.EqBytes(rb, news[b])), "a read returned bytes that were never written to its key")
		// first read new => second read new
		vsym.Assert(vsym.Implies(vsym.EqBytes(ra, news[a]), vsym.EqBytes(rb, news[b])), "a concurrent reader observed a strict subset of a committed transaction")
		if inTx {
			// a read-only transaction reads one state: both old or both new
			vsym.Assert(vsym.EqBytes(ra, news[a]) == vsym.EqBytes(rb, news[b]), "a read-only transaction observed two different committed states")
		}
	}()
	wg.Wait()
	vsym.Reach("done")
}
