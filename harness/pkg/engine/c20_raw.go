//go:build verif

package engine

import (
	"encoding/json"
	"os"

	"github.com/KevoDB/kevo/pkg/config"
)

// c20WriteRaw stores a configuration without validating it.
func c20WriteRaw(path string, c *config.Config) bool {
	b, err := json.MarshalIndent(c, "", "  ")
	if err != nil {
		return false
	}
	return os.WriteFile(path, b, 0644) == nil
}
