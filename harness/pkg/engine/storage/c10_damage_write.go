//go:build verif

package storage

import (
	"os"

	"github.com/KevoDB/kevo/pkg/config"
	"github.com/KevoDB/kevo/pkg/stats"
	"github.com/KevoDB/kevo/pkg/wal"
	"github.com/KevoDB/kevo/pkg/zzverif/vsym"
)

// VerifC10_DamageThenWriteThenRecover: a database whose newest log file is cut at any byte offset (or has one
// byte altered) is opened: opening succeeds and every operation completely written before the damage is there;
// then one more write is acknowledged, the database is closed cleanly and opened again: that write and the
// earlier recovered ones are all there (nothing may be appended where the next recovery cannot read it).
func VerifC10_DamageThenWriteThenRecover() {
	cfg := config.NewDefaultConfig(vsym.Dir())
	m, err := NewManager(cfg, stats.NewAtomicCollector())
	vsym.Assert(err == nil, "NewManager failed")
	n := vsym.IntRange("n", 1, 2)
	var ks, vs [][]byte
	var ends []int
	off := 0
	for i := 0; i < n; i++ {
		k, v := []byte{'a' + byte(i)}, vsym.Bytes("v", 1)
		vsym.Assert(m.Put(k, v) == nil, "Put failed")
		ks, vs = append(ks, k), append(vs, v)
		off += wal.HeaderSize + 1 + 8 + 4 + 1 + 4 + 1
		ends = append(ends, off)
	}
	vsym.Assert(m.Close() == nil, "Close failed")
	files, _ := wal.FindWALFiles(cfg.WALDir)
	vsym.Assert(len(files) == 1, "expected one log file")
	data, err := os.ReadFile(files[0])
	vsym.Assert(err == nil && len(data) == off, "log size differs from the harness' bookkeeping")
	damageAt := 0
	if vsym.IntRange("kind", 0, 1) == 0 {
		damageAt = vsym.IntRange("cut", 0, off-1)
		vsym.Assert(os.WriteFile(files[0], data[:damageAt], 0644) == nil, "rewrite failed")
	} else {
		damageAt = vsym.IntRange("pos", 0, off-1)
		nb := vsym.Byte("newbyte")
		vsym.Assume(nb != data[damageAt])
		data[damageAt] = nb
		vsym.Assert(os.WriteFile(files[0], data, 0644) == nil, "rewrite failed")
	}
	intact := 0
	for intact < n && ends[intact] <= damageAt {
		intact++
	}
	m2, err := NewManager(cfg, stats.NewAtomicCollector())
	vsym.Assert(err == nil, "opening a database with a damaged log tail failed")
	if err != nil {
		return
	}
	for i := 0; i < intact; i++ {
		got, gerr := m2.Get(ks[i])
		vsym.Assert(gerr == nil && vsym.EqBytes(got, vs[i]), "an operation completely written before the damage was not recovered")
	}
	nk, nv := []byte{'z'}, vsym.Bytes("nv", 1)
	vsym.Assert(m2.Put(nk, nv) == nil, "Put after recovery failed")
	vsym.Assert(m2.Close() == nil, "Close after recovery failed")
	m3, err := NewManager(cfg, stats.NewAtomicCollector())
	vsym.Assert(err == nil, "second open failed")
	if err != nil {
		return
	}
	got, gerr := m3.Get(nk)
	vsym.Assert(gerr == nil && vsym.EqBytes(got, nv), "a write acknowledged after the recovery is lost at the next open")
	for i := 0; i < intact; i++ {
		got, gerr := m3.Get(ks[i])
		vsym.Assert(gerr == nil && vsym.EqBytes(got, vs[i]), "an operation recovered at the first open is gone at the second")
	}
	vsym.Reach("done")
}
