//go:build verif

package storage

import (
	"github.com/KevoDB/kevo/pkg/config"
	"github.com/KevoDB/kevo/pkg/stats"
	"github.com/KevoDB/kevo/pkg/zzverif/vsym"
)

// VerifC01_StorageProgram: symbolic program over {Put,Delete,Flush,Reopen} on a 2-key universe, then Get(q).
func VerifC01_StorageProgram() {
	cfg := config.NewDefaultConfig(vsym.Dir())
	m, err := NewManager(cfg, stats.NewAtomicCollector())
	vsym.Assert(err == nil, "NewManager failed")
	K := [2][]byte{vsym.Bytes("K0", 1), vsym.Bytes("K1", 1)}
	vsym.Assume(K[0][0] < K[1][0])
	// model: 0 absent/deleted, 1 present with val
	var present [2]bool
	var val [2][]byte
	n := vsym.IntRange("n", 1, 4)
	for i := 0; i < n; i++ {
		switch vsym.IntRange("op", 0, 3) {
		case 0:
			ki := vsym.IntRange("ki", 0, 1)
			v := vsym.Bytes("v", 1)
			vsym.Assert(m.Put(K[ki], v) == nil, "Put failed")
			present[ki], val[ki] = true, v
		case 1:
			ki := vsym.IntRange("ki", 0, 1)
			vsym.Assert(m.Delete(K[ki]) == nil, "Delete failed")
			present[ki] = false
		case 2:
			vsym.Assert(m.FlushMemTables() == nil, "Flush failed")
		case 3:
			vsym.Assert(m.Close() == nil, "Close failed")
			m, err = NewManager(cfg, stats.NewAtomicCollector())
			vsym.Assert(err == nil, "reopen failed")
		}
	}
	qi := vsym.IntRange("qi", 0, 1)
	got, err := m.Get(K[qi])
	if present[qi] {
		vsym.Assert(err == nil, "present key not found")
		if err == nil {
			vsym.Assert(vsym.EqBytes(got, val[qi]), "stale or wrong value")
		}
	} else {
		vsym.Assert(err != nil, "absent/deleted key found")
	}
	vsym.Reach("done")
}
