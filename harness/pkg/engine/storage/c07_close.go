//go:build verif

package storage

import (
	"github.com/KevoDB/kevo/pkg/config"
	"github.com/KevoDB/kevo/pkg/stats"
	"github.com/KevoDB/kevo/pkg/zzverif/vsym"
)

// VerifC07_CloseWithBackgroundFlush: one client writes into an engine whose 1-byte memtable hands a table to the
// background flush goroutine with every write, then closes the database - no other call is in flight, only the
// engine's own background maintenance, which runs as a thread and may be anywhere in its flush when Close runs.
// No data race, panic or deadlock; Close returns; and the database reopens to exactly its pre-close state.
func VerifC07_CloseWithBackgroundFlush() {
	cfg := config.NewDefaultConfig(vsym.Dir())
	cfg.MemTableSize = 1
	m, err := NewManager(cfg, stats.NewAtomicCollector())
	vsym.Assert(err == nil, "NewManager failed")
	K := [2][]byte{vsym.Bytes("K0", 1), vsym.Bytes("K1", 1)}
	vsym.Assume(vsym.LessBytes(K[0], K[1]))
	var present [2]bool
	var val [2][]byte
	N := 2
	if vsym.Thorough() {
		N = 3
	}
	n := vsym.IntRange("n", 1, N)
	for i := 0; i < n; i++ {
		ki := vsym.IntRange("ki", 0, 1)
		if vsym.IntRange("op", 0, 1) == 0 {
			v := vsym.Bytes("v", 1)
			vsym.Assert(m.Put(K[ki], v) == nil, "Put failed")
			present[ki], val[ki] = true, v
		} else {
			vsym.Assert(m.Delete(K[ki]) == nil, "Delete failed")
			present[ki] = false
		}
	}
	vsym.Assert(m.Close() == nil, "Close failed while the engine's own background flush was running")
	vsym.Quiesce() // whatever the background goroutine still does, it does now
	m2, err := NewManager(cfg, stats.NewAtomicCollector())
	vsym.Assert(err == nil, "reopen after a close that met a running background flush failed")
	for i := 0; i < 2; i++ {
		got, gerr := m2.Get(K[i])
		vsym.Assert((gerr == nil) == present[i], "a cleanly closed database reopens to a different state (a key lost, or a deleted key back)")
		if gerr == nil && present[i] {
			vsym.Assert(vsym.EqBytes(got, val[i]), "a cleanly closed database reopens with an older value")
		}
	}
	vsym.Reach("done")
}
