//go:build verif

package storage

import (
	"os"

	"github.com/KevoDB/kevo/pkg/config"
	"github.com/KevoDB/kevo/pkg/stats"
	"github.com/KevoDB/kevo/pkg/wal"
	"github.com/KevoDB/kevo/pkg/zzverif/vsym"
)

func c10Big(name string, n int) []byte {
	b := make([]byte, n)
	for i := range b {
		b[i] = byte(i*13 + i>>7)
	}
	b[0], b[n-1] = vsym.Byte(name), vsym.Byte(name)
	return b
}

// VerifC10_DamagedFragmentedTail: the log ends with an entry that is fragmented over several records (a 33 KB value)
// and is cut at a record boundary +-1, right behind a record header, or in the middle of a record. Opening succeeds;
// the small entry before it is recovered; the large entry is recovered only if it was complete, and then unaltered.
// After the recovery another fragmented entry and a small one are written and acknowledged, the database is closed
// and opened again: both are there unaltered, and the cut entry has not come back with bytes that were never written
// (left-over fragments must not be glued to a later entry).
func VerifC10_DamagedFragmentedTail() {
	cfg := config.NewDefaultConfig(vsym.Dir())
	m, err := NewManager(cfg, stats.NewAtomicCollector())
	vsym.Assert(err == nil, "NewManager failed")
	ka, kb, kc, kd := []byte{'a'}, []byte{'b'}, []byte{'c'}, []byte{'d'}
	va := vsym.Bytes("va", 1)
	vb := c10Big("vb", 33000)
	vsym.Assert(m.Put(ka, va) == nil && m.Put(kb, vb) == nil, "Put failed")
	vsym.Assert(m.Close() == nil, "Close failed")
	files, _ := wal.FindWALFiles(cfg.WALDir)
	vsym.Assert(len(files) == 1, "expected one log file")
	data, err := os.ReadFile(files[0])
	vsym.Assert(err == nil, "ReadFile failed")
	// record boundaries: small entry | FIRST (13 bytes of metadata + key) | MIDDLE (full) | LAST (rest)
	h := wal.HeaderSize
	b1 := h + 1 + 8 + 4 + 1 + 4 + 1
	b2 := b1 + h + 13 + 1
	b3 := b2 + h + wal.MaxRecordSize
	b4 := len(data)
	vsym.Assert(b3 < b4 && b4 == b3+h+(4+33000-wal.MaxRecordSize), "log layout differs from the harness' bookkeeping")
	bounds := []int{b1, b2, b3, b4}
	bi := vsym.IntRange("boundary", 0, 3)
	var cut int
	switch vsym.IntRange("where", 0, 4) {
	case 0:
		cut = bounds[bi] - 1
	case 1:
		cut = bounds[bi]
	case 2:
		cut = bounds[bi] + 1
	case 3:
		cut = bounds[bi] + h
	case 4:
		cut = bounds[bi] + h + 100
	}
	vsym.Assume(cut >= b1 && cut <= b4)
	vsym.Assert(os.WriteFile(files[0], data[:cut], 0644) == nil, "rewrite failed")
	m2, err := NewManager(cfg, stats.NewAtomicCollector())
	vsym.Assert(err == nil, "opening a database whose log ends in a cut fragmented entry failed")
	if err != nil {
		return
	}
	got, gerr := m2.Get(ka)
	vsym.Assert(gerr == nil && vsym.EqBytes(got, va), "the entry completely written before the damage was not recovered")
	got, gerr = m2.Get(kb)
	if cut == b4 {
		vsym.Assert(gerr == nil, "a completely written fragmented entry was not recovered")
	}
	if gerr == nil {
		vsym.Assert(cut == b4, "an incompletely written entry was recovered")
		vsym.Assert(len(got) == len(vb) && vsym.EqBytes(got, vb), "a recovered fragmented entry differs from what was written")
	}
	vc := c10Big("vc", 33100)
	vd := vsym.Bytes("vd", 1)
	seq1, _ := m2.GetStorageStats()["last_sequence"].(uint64)
	vsym.Assert(m2.Put(kc, vc) == nil && m2.Put(kd, vd) == nil, "Put after recovery failed")
	seq2, _ := m2.GetStorageStats()["last_sequence"].(uint64)
	vsym.Assert(seq2 >= seq1+2, "two writes acknowledged after the recovery did not advance the reported last sequence by two")
	vsym.Assert(m2.Close() == nil, "Close after recovery failed")
	m3, err := NewManager(cfg, stats.NewAtomicCollector())
	vsym.Assert(err == nil, "second open failed")
	if err != nil {
		return
	}
	// sequence numbers across the damaged recovery: the value reported after the second open is not below what
	// was reported before it, and a write acknowledged now is stamped above every earlier one
	seq3, _ := m3.GetStorageStats()["last_sequence"].(uint64)
	vsym.Assert(seq3 >= seq2, "the reported last sequence decreased across the second open (acknowledged writes after a damaged recovery were not counted)")
	vsym.Assert(m3.Put([]byte{'e'}, []byte{1}) == nil, "Put after the second open failed")
	seq4, _ := m3.GetStorageStats()["last_sequence"].(uint64)
	vsym.Assert(seq4 > seq2, "a write after the second open is stamped with a sequence number that an earlier acknowledged write already carries")
	got, gerr = m3.Get(kc)
	vsym.Assert(gerr == nil && len(got) == len(vc) && vsym.EqBytes(got, vc), "a fragmented entry acknowledged after the recovery is lost or altered at the next open")
	got, gerr = m3.Get(kd)
	vsym.Assert(gerr == nil && vsym.EqBytes(got, vd), "a small entry acknowledged after the recovery is lost at the next open")
	got, gerr = m3.Get(kb)
	if gerr == nil {
		vsym.Assert(cut == b4 && len(got) == len(vb) && vsym.EqBytes(got, vb), "the cut entry came back at the second open with bytes that were never written as its value (fabricated)")
	} else {
		vsym.Assert(cut < b4, "a recovered entry is gone at the second open")
	}
	got, gerr = m3.Get(ka)
	vsym.Assert(gerr == nil && vsym.EqBytes(got, va), "an entry recovered at the first open is gone at the second")
	vsym.Reach("done")
}

// VerifC10_FlipHeaderOfFragment: one byte of the 7-byte record header (checksum, length, type) of the FIRST, MIDDLE
// or LAST record of a fragmented entry (a 33 KB value) is replaced by a symbolic different value. Opening succeeds and
// does not panic; the small entry written before the fragmented one is recovered; the fragmented entry is either
// recovered exactly as written or absent; nothing that was never written appears.
func VerifC10_FlipHeaderOfFragment() {
	cfg := config.NewDefaultConfig(vsym.Dir())
	m, err := NewManager(cfg, stats.NewAtomicCollector())
	vsym.Assert(err == nil, "NewManager failed")
	ka, kb := []byte{'a'}, []byte{'b'}
	va := vsym.Bytes("va", 1)
	vb := c10Big("vb", 33000)
	vsym.Assert(m.Put(ka, va) == nil && m.Put(kb, vb) == nil, "Put failed")
	vsym.Assert(m.Close() == nil, "Close failed")
	files, _ := wal.FindWALFiles(cfg.WALDir)
	vsym.Assert(len(files) == 1, "expected one log file")
	data, err := os.ReadFile(files[0])
	vsym.Assert(err == nil, "ReadFile failed")
	h := wal.HeaderSize
	b1 := h + 1 + 8 + 4 + 1 + 4 + 1
	b2 := b1 + h + 13 + 1
	b3 := b2 + h + wal.MaxRecordSize
	vsym.Assert(b3 < len(data), "log layout differs from the harness' bookkeeping")
	starts := []int{b1, b2, b3}
	hb := vsym.IntRange("headerByte", 0, h-1)
	pos := starts[vsym.IntRange("fragment", 0, 2)] + hb
	nb := vsym.Byte("nb")
	vsym.Assume(nb != data[pos])
	if !vsym.Thorough() && (hb == 4 || hb == 5) {
		// every value of a length byte is its own read size: four representatives in the quick tier
		old := data[pos]
		vsym.Assume(nb == 0 || nb == old+1 || nb == old-1 || nb == 0xff)
	}
	data[pos] = nb
	vsym.Assert(os.WriteFile(files[0], data, 0644) == nil, "rewrite failed")
	m2, err := NewManager(cfg, stats.NewAtomicCollector())
	vsym.Assert(err == nil, "opening a database with one altered byte in a record header of its log failed")
	if err != nil {
		return
	}
	got, gerr := m2.Get(ka)
	vsym.Assert(gerr == nil && vsym.EqBytes(got, va), "the entry written before the damaged one was not recovered")
	got, gerr = m2.Get(kb)
	if gerr == nil {
		vsym.Assert(len(got) == len(vb) && vsym.EqBytes(got, vb), "a fragmented entry was recovered with bytes that were never written")
	}
	// the log directory still holds the log (recovery must not set the undamaged prefix aside and start empty)
	after, _ := wal.FindWALFiles(cfg.WALDir)
	vsym.Assert(len(after) >= 1, "the log files are gone after opening")
	vsym.Reach("done")
}

// VerifC10_FlipTypeOfFragmentCraftedValue: the record-type byte of the LAST record of a fragmented entry is replaced
// by a symbolic different value, and the part of the (user-chosen) value that this record carries starts with
// fourteen symbolic bytes - so the solver may make it look like a complete log entry (operation type, sequence number,
// key length, key). The type byte is not under the record checksum; what the reader makes of a record that claims
// to be complete in the middle of a fragmented entry decides whether user data can come back as an operation that was
// never appended. Opening succeeds; the entry written before is recovered unaltered; the fragmented entry is exact or
// absent; no other key exists.
func VerifC10_FlipTypeOfFragmentCraftedValue() {
	cfg := config.NewDefaultConfig(vsym.Dir())
	m, err := NewManager(cfg, stats.NewAtomicCollector())
	vsym.Assert(err == nil, "NewManager failed")
	ka, kb := []byte{'a'}, []byte{'b'}
	va := vsym.Bytes("va", 1)
	vb := c10Big("vb", 33000)
	// the LAST record carries vb[MaxRecordSize-4:]; its first fourteen bytes are free
	w := wal.MaxRecordSize - 4
	win := vsym.Bytes("win", 14)
	copy(vb[w:], win)
	// bound: a crafted key length of at most 2 (the three upper length bytes are zero)
	vsym.Assume(win[9] <= 2 && win[10] == 0 && win[11] == 0 && win[12] == 0)
	vsym.Assert(m.Put(ka, va) == nil && m.Put(kb, vb) == nil, "Put failed")
	vsym.Assert(m.Close() == nil, "Close failed")
	files, _ := wal.FindWALFiles(cfg.WALDir)
	vsym.Assert(len(files) == 1, "expected one log file")
	data, err := os.ReadFile(files[0])
	vsym.Assert(err == nil, "ReadFile failed")
	h := wal.HeaderSize
	b1 := h + 1 + 8 + 4 + 1 + 4 + 1
	b2 := b1 + h + 13 + 1
	b3 := b2 + h + wal.MaxRecordSize
	vsym.Assert(b3+h+14 < len(data), "log layout differs from the harness' bookkeeping")
	vsym.Assert(data[b3+6] == wal.RecordTypeLast && data[b2+6] == wal.RecordTypeMiddle, "log layout differs from the harness' bookkeeping (record types)")
	nb := vsym.Byte("nb")
	vsym.Assume(nb != data[b3+6])
	data[b3+6] = nb
	vsym.Assert(os.WriteFile(files[0], data, 0644) == nil, "rewrite failed")
	m2, err := NewManager(cfg, stats.NewAtomicCollector())
	vsym.Assert(err == nil, "opening a database with one altered record-type byte in its log failed")
	if err != nil {
		return
	}
	got, gerr := m2.Get(ka)
	vsym.Assert(gerr == nil && vsym.EqBytes(got, va), "the entry written before the damaged one is gone or altered: an operation that was never appended was replayed")
	got, gerr = m2.Get(kb)
	if gerr == nil {
		vsym.Assert(len(got) == len(vb) && vsym.EqBytes(got, vb), "a fragmented entry was recovered with bytes that were never written")
	}
	q := vsym.Bytes("q", 1)
	vsym.Assume(q[0] != 'a' && q[0] != 'b')
	_, gerr = m2.Get(q)
	vsym.Assert(gerr != nil, "a key that was never written exists after recovery: user data was replayed as an operation")
	vsym.Reach("done")
}
