//go:build verif

package storage

import (
	"os"

	"github.com/KevoDB/kevo/pkg/config"
	"github.com/KevoDB/kevo/pkg/stats"
	"github.com/KevoDB/kevo/pkg/wal"
	"github.com/KevoDB/kevo/pkg/zzverif/vsym"
)

// VerifC08_SeqMonotone: over programs of puts, 2-entry batches, empty batches, flushes and clean reopenings, the sequence numbers
// stored in the log are strictly increasing in write order (entries of one batch share a number), and the reported
// last sequence never decreases.
func VerifC08_SeqMonotone() {
	cfg := config.NewDefaultConfig(vsym.Dir())
	m, err := NewManager(cfg, stats.NewAtomicCollector())
	vsym.Assert(err == nil, "NewManager failed")
	k := vsym.Bytes("k", 1)
	var writeOf []int // write id of every log entry, in issue order
	writes := 0
	var last uint64
	n := vsym.IntRange("n", 1, 4)
	for i := 0; i < n; i++ {
		switch vsym.IntRange("op", 0, 5) {
		case 5: // a batch without operations: nothing is written, no number is used
			vsym.Assert(m.ApplyBatch([]*wal.Entry{}) == nil, "empty ApplyBatch failed")
		case 4: // a put whose log entry is fragmented over several records
			big := make([]byte, 33000)
			big[0], big[len(big)-1] = vsym.Byte("b"), vsym.Byte("b")
			vsym.Assert(m.Put(k, big) == nil, "Put of a large value failed")
			writeOf = append(writeOf, writes)
			writes++
		case 0:
			vsym.Assert(m.Put(k, vsym.Bytes("v", 1)) == nil, "Put failed")
			writeOf = append(writeOf, writes)
			writes++
		case 1:
			b := []*wal.Entry{{Type: wal.OpTypePut, Key: k, Value: vsym.Bytes("v", 1)}, {Type: wal.OpTypeDelete, Key: k}}
			vsym.Assert(m.ApplyBatch(b) == nil, "ApplyBatch failed")
			writeOf = append(writeOf, writes, writes)
			writes++
		case 2:
			vsym.Assert(m.FlushMemTables() == nil, "Flush failed")
		case 3:
			vsym.Assert(m.Close() == nil, "Close failed")
			m, err = NewManager(cfg, stats.NewAtomicCollector())
			vsym.Assert(err == nil, "reopen failed")
		}
		cur, _ := m.GetStorageStats()["last_sequence"].(uint64)
		vsym.Assert(cur >= last, "reported last sequence decreased")
		last = cur
	}
	vsym.Assert(m.Close() == nil, "final Close failed")
	var seqs []uint64
	_, err = wal.ReplayWALDir(cfg.WALDir, func(e *wal.Entry) error { seqs = append(seqs, e.SequenceNumber); return nil })
	vsym.Assert(err == nil, "log replay failed")
	vsym.Assert(len(seqs) == len(writeOf), "log does not hold exactly the issued entries")
	if len(seqs) > 0 {
		vsym.Assert(last == seqs[len(seqs)-1], "the reported last sequence is not the number of the last write")
	}
	for i := 1; i < len(seqs) && i < len(writeOf); i++ {
		if writeOf[i] == writeOf[i-1] {
			vsym.Assert(seqs[i] == seqs[i-1], "entries of one batch carry different numbers")
		} else {
			vsym.Assert(seqs[i] > seqs[i-1], "a later write carries a sequence number that is not greater")
		}
	}
	vsym.Reach("done")
}

// VerifC08_SeqAcrossDamagedRecovery: the log tail is cut at any byte offset (as a crash leaves it), the database is
// reopened and written to, closed, reopened and written to again: every acknowledged write is stamped with a
// sequence number greater than that of every write acknowledged before it, and the reported last sequence never
// decreases - across both recoveries.
func VerifC08_SeqAcrossDamagedRecovery() {
	cfg := config.NewDefaultConfig(vsym.Dir())
	m, err := NewManager(cfg, stats.NewAtomicCollector())
	vsym.Assert(err == nil, "NewManager failed")
	k := vsym.Bytes("k", 1)
	n := vsym.IntRange("n", 1, 2)
	var ends []int
	off := 0
	for i := 0; i < n; i++ {
		vsym.Assert(m.Put(k, vsym.Bytes("v", 1)) == nil, "Put failed")
		off += wal.HeaderSize + 1 + 8 + 4 + 1 + 4 + 1
		ends = append(ends, off)
	}
	vsym.Assert(m.Close() == nil, "Close failed")
	files, _ := wal.FindWALFiles(cfg.WALDir)
	vsym.Assert(len(files) == 1, "expected one log file")
	data, err := os.ReadFile(files[0])
	vsym.Assert(err == nil && len(data) == off, "log size differs from the harness' bookkeeping")
	cut := vsym.IntRange("cut", 0, off)
	vsym.Assert(os.WriteFile(files[0], data[:cut], 0644) == nil, "rewrite failed")
	intact := uint64(0)
	for int(intact) < n && ends[intact] <= cut {
		intact++
	}
	// the surviving writes carry 1..intact; everything acknowledged from now on must be above that, and increasing
	last := intact
	var reported uint64
	for round := 0; round < 2; round++ {
		m, err = NewManager(cfg, stats.NewAtomicCollector())
		vsym.Assert(err == nil, "open failed")
		if err != nil {
			return
		}
		cur, _ := m.GetStorageStats()["last_sequence"].(uint64)
		vsym.Assert(cur >= reported, "reported last sequence decreased across a restart")
		vsym.Assert(m.Put(k, vsym.Bytes("w", 1)) == nil, "Put after recovery failed")
		cur, _ = m.GetStorageStats()["last_sequence"].(uint64)
		vsym.Assert(cur > last, "a write after recovery is stamped with a sequence number that was already used")
		vsym.Assert(cur >= reported, "reported last sequence decreased")
		last, reported = cur, cur
		vsym.Assert(m.Close() == nil, "Close failed")
	}
	vsym.Reach("done")
}
