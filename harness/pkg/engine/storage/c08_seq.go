//go:build verif

package storage

import (
	"github.com/KevoDB/kevo/pkg/config"
	"github.com/KevoDB/kevo/pkg/stats"
	"github.com/KevoDB/kevo/pkg/wal"
	"github.com/KevoDB/kevo/pkg/zzverif/vsym"
)

// VerifC08_SeqMonotone: over programs of puts, 2-entry batches, flushes and clean reopenings, the sequence numbers
// stored in the log are strictly increasing in write order (entries of one batch share a number), and the reported
// last sequence never decreases.
func VerifC08_SeqMonotone() {
	cfg := config.NewDefaultConfig(vsym.Dir())
	m, err := NewManager(cfg, stats.NewAtomicCollector())
	vsym.Assert(err == nil, "NewManager failed")
	k := vsym.Bytes("k", 1)
	var writeOf []int // write id of every log entry, in issue order
	writes := 0
	var last uint64
	n := vsym.IntRange("n", 1, 4)
	for i := 0; i < n; i++ {
		switch vsym.IntRange("op", 0, 3) {
		case 0:
			vsym.Assert(m.Put(k, vsym.Bytes("v", 1)) == nil, "Put failed")
			writeOf = append(writeOf, writes)
			writes++
		case 1:
			b := []*wal.Entry{{Type: wal.OpTypePut, Key: k, Value: vsym.Bytes("v", 1)}, {Type: wal.OpTypeDelete, Key: k}}
			vsym.Assert(m.ApplyBatch(b) == nil, "ApplyBatch failed")
			writeOf = append(writeOf, writes, writes)
			writes++
		case 2:
			vsym.Assert(m.FlushMemTables() == nil, "Flush failed")
		case 3:
			vsym.Assert(m.Close() == nil, "Close failed")
			m, err = NewManager(cfg, stats.NewAtomicCollector())
			vsym.Assert(err == nil, "reopen failed")
		}
		cur, _ := m.GetStorageStats()["last_sequence"].(uint64)
		vsym.Assert(cur >= last, "reported last sequence decreased")
		last = cur
	}
	vsym.Assert(m.Close() == nil, "final Close failed")
	var seqs []uint64
	_, err = wal.ReplayWALDir(cfg.WALDir, func(e *wal.Entry) error { seqs = append(seqs, e.SequenceNumber); return nil })
	vsym.Assert(err == nil, "log replay failed")
	vsym.Assert(len(seqs) == len(writeOf), "log does not hold exactly the issued entries")
	for i := 1; i < len(seqs) && i < len(writeOf); i++ {
		if writeOf[i] == writeOf[i-1] {
			vsym.Assert(seqs[i] == seqs[i-1], "entries of one batch carry different numbers")
		} else {
			vsym.Assert(seqs[i] > seqs[i-1], "a later write carries a sequence number that is not greater")
		}
	}
	vsym.Reach("done")
}
