//go:build verif

package storage

import (
	"github.com/KevoDB/kevo/pkg/config"
	"github.com/KevoDB/kevo/pkg/stats"
	"github.com/KevoDB/kevo/pkg/zzverif/vsym"
)

// VerifC02_CrashPrefix: n puts to distinct keys with synchronous logging, process dies anywhere, reopen:
// recovered state = state after some prefix j of the puts, j >= number of acknowledged puts.
func VerifC02_CrashPrefix() {
	cfg := config.NewDefaultConfig(vsym.Dir())
	K := [2][]byte{vsym.Bytes("K0", 1), vsym.Bytes("K1", 1)}
	vsym.Assume(!vsym.EqBytes(K[0], K[1]))
	V := [2][]byte{vsym.Bytes("V0", 1), vsym.Bytes("V1", 1)}
	acked := 0
	n := vsym.IntRange("n", 1, 2)
	mode := vsym.IntRange("mode", 1, 2)
	crashed := vsym.CrashRegion(mode, func() {
		m, err := NewManager(cfg, stats.NewAtomicCollector())
		if err != nil {
			return
		}
		for i := 0; i < n; i++ {
			if m.Put(K[i], V[i]) == nil {
				acked++
			}
		}
		m.Close()
	}, &acked)
	_ = crashed
	m2, err := NewManager(cfg, stats.NewAtomicCollector())
	vsym.Assert(err == nil, "reopen after crash failed")
	if err != nil {
		return
	}
	// find j = number of leading keys present; require prefix shape and j >= acked
	j := 0
	for i := 0; i < n; i++ {
		got, gerr := m2.Get(K[i])
		if gerr == nil {
			vsym.Assert(j == i, "recovered state is not a prefix (hole before a present key)")
			vsym.Assert(vsym.EqBytes(got, V[i]), "recovered value differs")
			j = i + 1
		}
	}
	vsym.Assert(j >= acked, "acknowledged write lost")
	vsym.Reach("done")
}
