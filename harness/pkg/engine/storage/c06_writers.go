//go:build verif

package storage

import (
	"sync"
	"sync/atomic"

	"github.com/KevoDB/kevo/pkg/config"
	"github.com/KevoDB/kevo/pkg/stats"
	"github.com/KevoDB/kevo/pkg/zzverif/vsym"
)

// VerifC06_TwoWriters: two clients write the same key concurrently (each a put of its own value or a delete) while
// a third reads it once; 1-byte or default memtable (with the 1-byte one every write hands a table to the flusher,
// which runs as a thread of its own when the check starts it). There must be a total order of the three operations,
// consistent with the recorded call/return order, that explains what the read returned and what the key holds at
// the end; both writes report success; and the order the log recorded is the same one: after a clean close and a
// reopen (state rebuilt from the log by sequence number) the key reads exactly as it did before the close.
func VerifC06_TwoWriters() {
	cfg := config.NewDefaultConfig(vsym.Dir())
	if vsym.IntRange("small", 0, 1) == 1 {
		cfg.MemTableSize = 1
	}
	m, err := NewManager(cfg, stats.NewAtomicCollector())
	vsym.Assert(err == nil, "NewManager failed")
	k := vsym.Bytes("k", 1)
	v0 := vsym.Bytes("v0", 1)
	val := [2][]byte{vsym.Bytes("vA", 1), vsym.Bytes("vB", 1)}
	vsym.Assume(vsym.Not(vsym.EqBytes(val[0], val[1])))
	vsym.Assume(vsym.Not(vsym.EqBytes(val[0], v0)))
	vsym.Assume(vsym.Not(vsym.EqBytes(val[1], v0)))
	pre := vsym.IntRange("pre", 0, 1) == 1
	if pre {
		vsym.Assert(m.Put(k, v0) == nil, "setup put failed")
	}
	var del [2]bool
	del[0] = vsym.IntRange("delA", 0, 1) == 1
	del[1] = vsym.IntRange("delB", 0, 1) == 1
	var clock int64
	var begin, end [3]int64
	var werr [2]error
	var rv []byte
	var rfound bool
	var wg sync.WaitGroup
	wg.Add(3)
	for w := 0; w < 2; w++ {
		w := w
		go func() {
			defer wg.Done()
			begin[w] = atomic.AddInt64(&clock, 1)
			if del[w] {
				werr[w] = m.Delete(k)
			} else {
				werr[w] = m.Put(k, val[w])
			}
			end[w] = atomic.AddInt64(&clock, 1)
		}()
	}
	go func() {
		defer wg.Done()
		begin[2] = atomic.AddInt64(&clock, 1)
		v, e := m.Get(k)
		rv, rfound = v, e == nil
		end[2] = atomic.AddInt64(&clock, 1)
	}()
	wg.Wait()
	vsym.Assert(werr[0] == nil && werr[1] == nil, "a client write failed although nothing is wrong")
	// state(i): does an observation (found, bytes) equal the effect of writer i / the initial state
	isW := func(i int, found bool, b []byte) bool {
		if del[i] {
			return !found
		}
		return vsym.And(found, vsym.EqBytes(b, val[i]))
	}
	isInit := func(found bool, b []byte) bool {
		if !pre {
			return !found
		}
		return vsym.And(found, vsym.EqBytes(b, v0))
	}
	before := func(a, b int) bool { return end[a] < begin[b] } // a returned before b was called
	fv, ferr := m.Get(k)
	ffound := ferr == nil
	// the final state is the effect of a write that the other one did not follow in real time
	finalOK := false
	for i := 0; i < 2; i++ {
		if !before(i, 1-i) {
			finalOK = vsym.Or(finalOK, isW(i, ffound, fv))
		}
	}
	vsym.Assert(finalOK, "after two concurrent writes the key holds neither write's effect, or that of a write which had returned before the other began")
	// the concurrent read: initial state (no write had returned before it began), or the effect of a write that was
	// called before the read returned and was not overwritten by a write that completed between it and the read
	readOK := false
	if !before(0, 2) && !before(1, 2) {
		readOK = vsym.Or(readOK, isInit(rfound, rv))
	}
	for i := 0; i < 2; i++ {
		if before(2, i) {
			continue // the read had returned before this write was called
		}
		if before(i, 1-i) && before(1-i, 2) {
			continue // overwritten by the other write before the read began
		}
		// if the other write precedes the read entirely and this one is last in the final state too, fine; the
		// final state must agree with the order the read implies when the read began after both had returned
		readOK = vsym.Or(readOK, isW(i, rfound, rv))
	}
	vsym.Assert(readOK, "a read concurrent with two writers returned a state no order of the operations explains")
	if before(0, 2) && before(1, 2) {
		vsym.Assert(vsym.And(rfound == ffound, vsym.Implies(rfound, vsym.EqBytes(rv, fv))), "a read that began after both writes had returned differs from the final state")
	}
	// the log's order is the visible order
	vsym.Assert(m.Close() == nil, "Close failed")
	m2, err := NewManager(cfg, stats.NewAtomicCollector())
	vsym.Assert(err == nil, "reopen failed")
	gv, gerr := m2.Get(k)
	vsym.Assert((gerr == nil) == ffound, "after a restart the key reads differently than before it: the log's order of two concurrent writes is not the order clients saw")
	if gerr == nil && ffound {
		vsym.Assert(vsym.EqBytes(gv, fv), "after a restart the key holds the other concurrent write: the log's order is not the order clients saw")
	}
	vsym.Reach("done")
}
