//go:build verif

package storage

import (
	"sync"
	"sync/atomic"

	"github.com/KevoDB/kevo/pkg/config"
	"github.com/KevoDB/kevo/pkg/stats"
	"github.com/KevoDB/kevo/pkg/zzverif/vsym"
)

// VerifC06_ReadsDuringFlush: one client overwrites (or deletes) a key while another client reads it twice, with a
// 1-byte memtable so that every write hands a table to the background flush goroutine, which runs as a third
// thread (and, optionally, an explicit flush as a fourth). Each read returns the old or the new state of the key
// - never "not found" for a key that exists throughout, never bytes nobody wrote -, reads do not go back in time,
// a read that starts after the write returned sees it, the write reports success and is visible at the end.
func VerifC06_ReadsDuringFlush() {
	cfg := config.NewDefaultConfig(vsym.Dir())
	cfg.MemTableSize = 1
	m, err := NewManager(cfg, stats.NewAtomicCollector())
	vsym.Assert(err == nil, "NewManager failed")
	k := vsym.Bytes("k", 1)
	v0, v1 := vsym.Bytes("v0", 1), vsym.Bytes("v1", 1)
	vsym.Assume(vsym.Not(vsym.EqBytes(v0, v1)))
	vsym.Assert(m.Put(k, v0) == nil, "setup put failed")
	del := vsym.IntRange("delete", 0, 1) == 1
	explicit := vsym.Thorough() && vsym.IntRange("explicitFlush", 0, 1) == 1
	var clock int64
	var wBegin, wEnd, rBegin int64
	var werr error
	var g [2][]byte
	var found [2]bool
	var wg sync.WaitGroup
	n := 2
	if explicit {
		n = 3
	}
	wg.Add(n)
	go func() {
		defer wg.Done()
		wBegin = atomic.AddInt64(&clock, 1)
		if del {
			werr = m.Delete(k)
		} else {
			werr = m.Put(k, v1)
		}
		wEnd = atomic.AddInt64(&clock, 1)
	}()
	go func() {
		defer wg.Done()
		rBegin = atomic.AddInt64(&clock, 1)
		for i := 0; i < 2; i++ {
			v, e := m.Get(k)
			g[i], found[i] = v, e == nil
		}
	}()
	if explicit {
		go func() { defer wg.Done(); m.FlushMemTables() }()
	}
	wg.Wait()
	_ = wBegin
	vsym.Assert(werr == nil, "a client write failed although nothing is wrong")
	isNew := func(i int) bool {
		if del {
			return !found[i]
		}
		return vsym.And(found[i], vsym.EqBytes(g[i], v1))
	}
	isOld := func(i int) bool { return vsym.And(found[i], vsym.EqBytes(g[i], v0)) }
	for i := 0; i < 2; i++ {
		vsym.Assert(vsym.Or(isOld(i), isNew(i)), "a read concurrent with a write and a flush returns a state the key never had (not found, or bytes nobody wrote)")
	}
	vsym.Assert(vsym.Implies(isNew(0), isNew(1)), "reads go back in time: the new state, then the old one")
	if wEnd < rBegin {
		vsym.Assert(isNew(0), "a read that started after the write had returned does not see it")
	}
	fv, ferr := m.Get(k)
	if del {
		vsym.Assert(ferr != nil, "an acknowledged delete is not in effect at the end")
	} else {
		vsym.Assert(ferr == nil && vsym.EqBytes(fv, v1), "an acknowledged put is not in effect at the end")
	}
	vsym.Reach("done")
}

// VerifC06_ErrorMeansNoEffect: with a 1-byte memtable, a small table budget and no flusher keeping up (immutable
// tables pile up), a sequence of puts and deletes: whatever each call reports, a reported success took effect and a
// reported error took none - the key reads exactly as the successful operations say.
func VerifC06_ErrorMeansNoEffect() {
	cfg := config.NewDefaultConfig(vsym.Dir())
	cfg.MemTableSize = 1
	cfg.MaxMemTables = vsym.IntRange("maxMemTables", 1, 2)
	m, err := NewManager(cfg, stats.NewAtomicCollector())
	vsym.Assert(err == nil, "NewManager failed")
	k := vsym.Bytes("k", 1)
	present := false
	var val []byte
	n := vsym.IntRange("n", 1, 4)
	for i := 0; i < n; i++ {
		if vsym.IntRange("op", 0, 1) == 0 {
			v := vsym.Bytes("v", 1)
			if m.Put(k, v) == nil {
				present, val = true, v
			}
		} else {
			if m.Delete(k) == nil {
				present = false
			}
		}
		got, gerr := m.Get(k)
		vsym.Assert((gerr == nil) == present, "a write that reported an error took effect (or one that reported success did not)")
		if gerr == nil && present {
			vsym.Assert(vsym.EqBytes(got, val), "a write that reported an error changed the value (or a successful one did not)")
		}
	}
	vsym.Reach("done")
}
