//go:build verif

package storage

import (
	"github.com/KevoDB/kevo/pkg/config"
	"github.com/KevoDB/kevo/pkg/stats"
	"github.com/KevoDB/kevo/pkg/zzverif/vsym"
)

// VerifC05_EngineScan: after a symbolic program over a 3-key universe (every write switches the memtable when
// small=1, so versions of a key spread over several immutable tables and SSTables), a full scan and a range scan
// yield exactly the live keys, once, ascending, with their latest values.
func VerifC05_EngineScan() {
	cfg := config.NewDefaultConfig(vsym.Dir())
	if vsym.IntRange("small", 0, 1) == 1 {
		cfg.MemTableSize = 1
	}
	m, err := NewManager(cfg, stats.NewAtomicCollector())
	vsym.Assert(err == nil, "NewManager failed")
	K := [3][]byte{vsym.Bytes("K0", 1), vsym.Bytes("K1", 1), vsym.Bytes("K2", 1)}
	vsym.Assume(K[0][0] < K[1][0] && K[1][0] < K[2][0])
	var present [3]bool
	var val [3][]byte
	N := 3
	if vsym.Thorough() {
		N = 4
	}
	n := vsym.IntRange("n", 1, N)
	for i := 0; i < n; i++ {
		switch vsym.IntRange("op", 0, 2) {
		case 0:
			ki := vsym.IntRange("ki", 0, 2)
			v := vsym.Bytes("v", 1)
			vsym.Assert(m.Put(K[ki], v) == nil, "Put failed")
			present[ki], val[ki] = true, v
		case 1:
			ki := vsym.IntRange("ki", 0, 2)
			vsym.Assert(m.Delete(K[ki]) == nil, "Delete failed")
			present[ki] = false
		case 2:
			vsym.Assert(m.FlushMemTables() == nil, "Flush failed")
		}
	}
	lo, hi := 0, 3
	it, err := m.GetIterator()
	if vsym.IntRange("range", 0, 1) == 1 {
		lo = vsym.IntRange("lo", 0, 2)
		hi = vsym.IntRange("hi", lo, 2)
		it, err = m.GetRangeIterator(K[lo], K[hi]) // [K[lo], K[hi])
	}
	vsym.Assert(err == nil, "iterator creation failed")
	next := lo
	for it.SeekToFirst(); it.Valid(); it.Next() {
		if it.IsTombstone() {
			continue // consumers skip deletion markers
		}
		for next < hi && !present[next] {
			next++
		}
		vsym.Assert(next < hi, "scan yields a key that is not live / not in range / duplicated")
		if next >= hi {
			return
		}
		vsym.Assert(vsym.EqBytes(it.Key(), K[next]), "scan key differs (missing, duplicated or out of order)")
		vsym.Assert(vsym.EqBytes(it.Value(), val[next]), "scan returns a stale value")
		next++
	}
	for next < hi && !present[next] {
		next++
	}
	vsym.Assert(next == hi, "scan misses a live key")
	vsym.Reach("done")
}
