//go:build verif

package storage

import (
	"sync"

	"github.com/KevoDB/kevo/pkg/config"
	"github.com/KevoDB/kevo/pkg/stats"
	"github.com/KevoDB/kevo/pkg/zzverif/vsym"
)

// VerifC06_PutVsFlush: one client Put racing the flush goroutine body, then a sequential Get.
func VerifC06_PutVsFlush() {
	cfg := config.NewDefaultConfig(vsym.Dir())
	cfg.MemTableSize = 1
	m, err := NewManager(cfg, stats.NewAtomicCollector())
	vsym.Assert(err == nil, "NewManager failed")
	k := vsym.Bytes("k", 1)
	v0, v1 := vsym.Bytes("v0", 1), vsym.Bytes("v1", 1)
	vsym.Assert(m.Put(k, v0) == nil, "first put failed")
	var wg sync.WaitGroup
	wg.Add(2)
	var perr error
	go func() { defer wg.Done(); perr = m.Put(k, v1) }()
	go func() { defer wg.Done(); m.FlushMemTables() }()
	wg.Wait()
	got, gerr := m.Get(k)
	vsym.Assert(gerr == nil, "key lost")
	if gerr == nil {
		if perr == nil {
			vsym.Assert(vsym.EqBytes(got, v1), "successful put not visible")
		} else {
			vsym.Assert(vsym.EqBytes(got, v0), "failed put had an effect")
		}
	}
	vsym.Reach("done")
}
