//go:build verif

package storage

import (
	"sync"

	"github.com/KevoDB/kevo/pkg/config"
	"github.com/KevoDB/kevo/pkg/stats"
	"github.com/KevoDB/kevo/pkg/zzverif/vsym"
)

// VerifC05_ScanDuringFlush: two keys are written into an engine with a 1-byte memtable (each write seals a table and
// hands it to the flusher), optionally a third write (overwrite or delete of the first key) follows; then a scan - full
// or range, created and run to its end - races the flush of those tables (FlushMemTables, what the background flush
// goroutine runs) and, optionally, a writer of another key. Wherever the tables are at the moment the scan is created
// (sealed in memory, being written out, registered as SSTable), the scan yields exactly the live keys that existed
// before it started, once each, ascending, with their latest values (the concurrently written other key may or may
// not appear).
func VerifC05_ScanDuringFlush() {
	cfg := config.NewDefaultConfig(vsym.Dir())
	cfg.MemTableSize = 1
	m, err := NewManager(cfg, stats.NewAtomicCollector())
	vsym.Assert(err == nil, "NewManager failed")
	// concrete keys: what is explored here is the schedule; symbolic key sets over layer arrangements are VerifC05_EngineScan's
	K := [3][]byte{{'a'}, {'b'}, {'c'}}
	var present [3]bool
	var val [3][]byte
	for i := 0; i < 2; i++ {
		v := vsym.Bytes("v", 1)
		vsym.Assert(m.Put(K[i], v) == nil, "Put failed")
		present[i], val[i] = true, v
	}
	switch vsym.IntRange("third", 0, 2) {
	case 1:
		v := vsym.Bytes("v", 1)
		vsym.Assert(m.Put(K[0], v) == nil, "Put failed")
		val[0] = v
	case 2:
		vsym.Assert(m.Delete(K[0]) == nil, "Delete failed")
		present[0] = false
	}
	if vsym.Thorough() && vsym.IntRange("preflush", 0, 1) == 1 {
		// part of the data already sits in SSTables when the race starts
		vsym.Assert(m.FlushMemTables() == nil, "Flush failed")
		v := vsym.Bytes("v", 1)
		vsym.Assert(m.Put(K[1], v) == nil, "Put failed")
		val[1] = v
	}
	writer := vsym.Thorough() && vsym.IntRange("writer", 0, 1) == 1
	ranged := vsym.IntRange("range", 0, 1) == 1
	var wg sync.WaitGroup
	n := 2
	if writer {
		n = 3
	}
	wg.Add(n)
	go func() { defer wg.Done(); m.FlushMemTables() }()
	if writer {
		go func() { defer wg.Done(); m.Put(K[2], []byte{7}) }()
	}
	go func() {
		defer wg.Done()
		it, err := m.GetIterator()
		hi := 2
		if ranged {
			it, err = m.GetRangeIterator(K[0], K[2]) // [K0, K2): the concurrently written key is outside
		}
		vsym.Assert(err == nil, "iterator creation failed")
		next := 0
		var last []byte
		for it.SeekToFirst(); it.Valid(); it.Next() {
			k := it.Key()
			if last != nil {
				vsym.Assert(vsym.LessBytes(last, k), "a scan concurrent with a flush is not strictly ascending (duplicate or out of order)")
			}
			last = append([]byte(nil), k...)
			if it.IsTombstone() {
				continue
			}
			if vsym.EqBytes(k, K[2]) {
				vsym.Assert(!ranged, "a range scan yields a key outside its range")
				continue // written during the scan: may or may not be seen
			}
			for next < hi && !present[next] {
				next++
			}
			vsym.Assert(next < hi, "a scan concurrent with a flush yields a key that is not live")
			if next >= hi {
				return
			}
			vsym.Assert(vsym.EqBytes(k, K[next]), "a scan concurrent with a flush misses a key that existed before it started (or yields another)")
			vsym.Assert(vsym.EqBytes(it.Value(), val[next]), "a scan concurrent with a flush returns a stale value")
			next++
		}
		for next < hi && !present[next] {
			next++
		}
		vsym.Assert(next == hi, "a scan concurrent with a flush misses a key that existed before it started")
	}()
	wg.Wait()
	vsym.Reach("done")
}
