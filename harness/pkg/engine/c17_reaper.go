//go:build verif

package engine

import (
	"context"
	"time"

	"github.com/KevoDB/kevo/pkg/transaction"
	"github.com/KevoDB/kevo/pkg/zzverif/vsym"
)

// VerifC17_AbandonedTxIsReaped: a transaction begun through the server's registry on the real engine facade and
// then abandoned by its client. Once its idle limit has passed, the registry's periodic cleanup body (or the
// cleanup of its connection) rolls it back: the handle is gone, the database lock is free, another client can
// begin a read-write transaction.
func VerifC17_AbandonedTxIsReaped() {
	h := &hEnv{}
	h.hKeys(2)
	h.hOpen(true, false)
	reg := transaction.NewRegistryWithTTL(5*time.Minute, time.Millisecond, 75, 90)
	ro := vsym.IntRange("readonly", 0, 1) == 1
	ctx := context.WithValue(context.Background(), "peer", "client-1")
	id, err := reg.Begin(ctx, h.e, ro)
	if err != nil {
		// the only legitimate failure is the begin deadline firing; it must not leave a transaction behind
		vsym.Quiesce()
		vsym.Assert(vsym.Held(h.e.txManager.GetRWLock()) == 0, "a Begin that failed left a transaction holding the database lock")
		vsym.Reach("begin-timeout")
		return
	}
	tx, ok := reg.Get(id)
	vsym.Assert(ok, "handle unknown right after Begin")
	if !ro && vsym.IntRange("wrote", 0, 1) == 1 {
		vsym.Assert(tx.Put(h.K[0], vsym.Bytes("v", 1)) == nil, "tx.Put failed")
	}
	// the client goes away; the idle limit (1 ms) passes
	time.Sleep(20 * time.Millisecond)
	if vsym.IntRange("how", 0, 1) == 0 {
		reg.(*transaction.RegistryImpl).CleanupStaleTransactions()
	} else {
		reg.CleanupConnection("client-1")
	}
	_, ok = reg.Get(id)
	vsym.Assert(!ok, "an abandoned transaction is still registered after its idle limit / connection cleanup")
	vsym.Assert(vsym.Held(h.e.txManager.GetRWLock()) == 0, "an abandoned transaction still holds the database lock after cleanup")
	vsym.Assert(tx.Commit() != nil, "an abandoned, cleaned-up transaction can still commit")
	_, gerr := h.e.Get(h.K[0])
	vsym.Assert(gerr != nil, "a write of an abandoned transaction became visible")
	vsym.Reach("done")
}
