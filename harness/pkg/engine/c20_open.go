//go:build verif

package engine

import (
	"os"
	"path/filepath"

	"github.com/KevoDB/kevo/pkg/config"
	"github.com/KevoDB/kevo/pkg/zzverif/vsym"
)

// VerifC20_OpenWithStoredConfig: a database is created with a non-default configuration and some data; then the
// stored manifest is left intact, cut at any byte, replaced by garbage, replaced by a configuration that violates a
// constraint, or removed. Opening an intact manifest uses exactly the stored configuration; a cut, unreadable or
// invalid manifest makes opening fail with an error - without creating log or table files and without overwriting
// the manifest; only a missing manifest leads to defaults.
func VerifC20_OpenWithStoredConfig() {
	dir := vsym.Dir()
	cfg := config.NewDefaultConfig(dir)
	cfg.MaxMemTables = 7
	cfg.MemTableSize = 12345
	walSub, sstSub := "wal", "sst"
	if vsym.IntRange("customDirs", 0, 1) == 1 {
		// a database created with its log and table directories somewhere else than the default sub-directories
		walSub, sstSub = "logs-elsewhere", "tables-elsewhere"
		cfg.WALDir, cfg.SSTDir = filepath.Join(dir, walSub), filepath.Join(dir, sstSub)
	}
	vsym.Assert(cfg.SaveManifest(dir) == nil, "SaveManifest failed")
	e, err := NewEngineFacade(dir)
	vsym.Assert(err == nil, "first open failed")
	vsym.Assert(e.cfg.MaxMemTables == 7 && e.cfg.MemTableSize == 12345, "the engine does not run with the stored configuration")
	k, v := vsym.Bytes("k", 1), vsym.Bytes("v", 1)
	vsym.Assert(e.Put(k, v) == nil, "Put failed")
	vsym.Assert(e.Close() == nil, "Close failed")
	mpath := filepath.Join(dir, config.DefaultManifestFileName)
	data, rerr := os.ReadFile(mpath)
	vsym.Assert(rerr == nil, "manifest missing after the first open")
	count := func(sub, ext string) int {
		ents, _ := os.ReadDir(filepath.Join(dir, sub))
		n := 0
		for _, en := range ents {
			if filepath.Ext(en.Name()) == ext {
				n++
			}
		}
		return n
	}
	walBefore, sstBefore := count(walSub, ".wal"), count(sstSub, ".sst")
	defWal, defSst := count("wal", ".wal"), count("sst", ".sst")
	what := vsym.IntRange("manifest", 0, 4)
	switch what {
	case 1: // cut at any byte
		cut := vsym.IntRange("cut", 0, len(data)-1)
		vsym.Assert(os.WriteFile(mpath, data[:cut], 0644) == nil, "rewrite failed")
	case 2: // garbage
		vsym.Assert(os.WriteFile(mpath, []byte("not a manifest"), 0644) == nil, "rewrite failed")
	case 3: // a stored configuration that violates a constraint (written by a different version, edited by hand ...)
		bad := config.NewDefaultConfig(dir)
		bad.MaxMemTables = 0
		// SaveManifest refuses it, so the invalid text is produced by marshalling directly, like an editor would
		vsym.Assert(c20WriteRaw(mpath, bad), "writing the invalid manifest failed")
	case 4:
		vsym.Assert(os.Remove(mpath) == nil, "remove failed")
	}
	after, _ := os.ReadFile(mpath)
	e2, err := NewEngineFacade(dir)
	vsym.Observe("openerr", err)
	switch what {
	case 0:
		vsym.Assert(err == nil, "opening with an intact manifest failed")
		if err == nil {
			vsym.Assert(e2.cfg.MaxMemTables == 7 && e2.cfg.MemTableSize == 12345, "a database was reopened with a configuration other than the stored one")
			got, gerr := e2.Get(k)
			vsym.Assert(gerr == nil && vsym.EqBytes(got, v), "data lost across a reopen with the stored configuration")
		}
	case 1, 2, 3:
		vsym.Assert(err != nil, "an unreadable or invalid stored configuration did not make opening fail (silent fallback)")
		now, _ := os.ReadFile(mpath)
		vsym.Assert(len(now) == len(after) && vsym.EqBytes(now, after), "a failed open overwrote the stored manifest")
		vsym.Assert(count(walSub, ".wal") == walBefore && count(sstSub, ".sst") == sstBefore, "a failed open created log or table files")
		vsym.Assert(count("wal", ".wal") == defWal && count("sst", ".sst") == defSst, "a failed open created log or table files in the default directories")
	case 4:
		vsym.Assert(err == nil, "opening without a manifest failed")
	}
	vsym.Reach("done")
}
