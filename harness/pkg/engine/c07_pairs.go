//go:build verif

package engine

import (
	"sync"

	"github.com/KevoDB/kevo/pkg/wal"
	"github.com/KevoDB/kevo/pkg/zzverif/vsym"
)

func c07Call(e *EngineFacade, which int, k, v []byte) {
	switch which {
	case 0:
		e.Put(k, v)
	case 1:
		e.Get(k)
	case 2:
		e.Delete(k)
	case 3:
		it, err := e.GetIterator()
		if err == nil {
			for it.SeekToFirst(); it.Valid(); it.Next() {
				_ = it.Key()
			}
		}
	case 4:
		tx, err := e.BeginTransaction(false)
		if err == nil {
			tx.Put(k, v)
			tx.Commit()
		}
	case 5:
		e.FlushImMemTables()
	case 6:
		e.GetStats()
	case 7:
		e.ApplyBatch([]*wal.Entry{{Type: wal.OpTypeDelete, Key: k}})
	case 8:
		e.IsDeleted(k)
	case 9:
		tx, err := e.BeginTransaction(true)
		if err == nil {
			tx.Get(k)
			tx.Rollback()
		}
	case 10: // a read-write transaction whose commit the log refuses (one value does not fit a log record)
		tx, err := e.BeginTransaction(false)
		if err == nil {
			tx.Put(k, make([]byte, wal.MaxRecordSize+1))
			if tx.Commit() == nil {
				vsym.Assert(false, "a commit with an oversized value succeeded")
			}
		}
	case 11:
		e.TriggerCompaction()
	case 12:
		it, err := e.GetRangeIterator(k, []byte{0xff, 0xff})
		if err == nil {
			for it.SeekToFirst(); it.Valid(); it.Next() {
				_ = it.Value()
			}
		}
		e.GetCompactionStats()
	case 13:
		e.CompactRange(k, []byte{0xff, 0xff})
	}
}

// VerifC07_Pairs: every unordered pair of fourteen entry points, one call each from two goroutines, on a small engine:
// no data race, no panic, no deadlock, both calls return.
func VerifC07_Pairs() {
	e, err := NewEngineFacade(vsym.Dir())
	vsym.Assert(err == nil, "open failed")
	k1, k2 := vsym.Bytes("k1", 1), vsym.Bytes("k2", 1)
	e.Put(k1, vsym.Bytes("v0", 1))
	a := vsym.IntRange("a", 0, 13)
	b := vsym.IntRange("b", a, 13)
	var wg sync.WaitGroup
	wg.Add(2)
	go func() { defer wg.Done(); c07Call(e, a, k1, vsym.Bytes("va", 1)) }()
	go func() { defer wg.Done(); c07Call(e, b, k2, vsym.Bytes("vb", 1)) }()
	wg.Wait()
	vsym.Reach("done")
}

// VerifC07_WritersVsBackgroundFlush: two clients each write twice into an engine whose memtable holds one byte, so
// that every write hands a table to the background flush goroutine, which runs as a third thread (an explicit
// flush may run as a fourth). No data race, panic or deadlock; every call returns; both clients' last writes
// are readable afterwards.
func VerifC07_WritersVsBackgroundFlush() {
	h := &hEnv{}
	h.hKeys(2)
	h.hOpen(true, true)
	e := h.e
	explicit := vsym.Thorough() && vsym.IntRange("explicitFlush", 0, 1) == 1
	var wg sync.WaitGroup
	n := 2
	if explicit {
		n = 3
	}
	wg.Add(n)
	var last [2][]byte
	for i := 0; i < 2; i++ {
		i := i
		go func() {
			defer wg.Done()
			for j := 0; j < 2; j++ {
				v := vsym.Bytes("v", 1)
				if e.Put(h.K[i], v) == nil {
					last[i] = v
				}
			}
		}()
	}
	if explicit {
		go func() { defer wg.Done(); e.FlushImMemTables() }()
	}
	wg.Wait()
	for i := 0; i < 2; i++ {
		got, err := e.Get(h.K[i])
		vsym.Assert(last[i] != nil, "every write of a client failed")
		vsym.Assert(err == nil && vsym.EqBytes(got, last[i]), "a client's last acknowledged write is not readable after concurrent writes and flushes")
	}
	vsym.Reach("done")
}

// VerifC07_PairsOnAgedEngine: the same pairs, but on an engine that has a history - two flushed level-0 tables, one
// completed compaction cycle that produced output files, and (variant) a restart on those files - because caches,
// statistics and bookkeeping that only exist after such maintenance are shared state too. No data race, no panic,
// no deadlock, both calls return.
func VerifC07_PairsOnAgedEngine() {
	h := &hEnv{maxMem: 2}
	h.hKeys(2)
	h.hOpen(true, false)
	e := h.e
	vsym.Assert(e.Put(h.K[0], vsym.Bytes("v0", 1)) == nil, "Put failed")
	vsym.Assert(e.FlushImMemTables() == nil, "Flush failed")
	vsym.Assert(e.Put(h.K[1], vsym.Bytes("v1", 1)) == nil, "Put failed")
	vsym.Assert(e.FlushImMemTables() == nil, "Flush failed")
	vsym.Assert(e.TriggerCompaction() == nil, "TriggerCompaction failed")
	if vsym.IntRange("restart", 0, 1) == 1 {
		vsym.Assert(e.Close() == nil, "Close failed")
		h.hOpen(false, false)
		e = h.e
	}
	a := vsym.IntRange("a", 0, 13)
	b := vsym.IntRange("b", a, 13)
	var wg sync.WaitGroup
	wg.Add(2)
	go func() { defer wg.Done(); c07Call(e, a, h.K[0], vsym.Bytes("va", 1)) }()
	go func() { defer wg.Done(); c07Call(e, b, h.K[1], vsym.Bytes("vb", 1)) }()
	wg.Wait()
	vsym.Reach("done")
}
