//go:build verif

package engine

import (
	"sync"

	"github.com/KevoDB/kevo/pkg/wal"
	"github.com/KevoDB/kevo/pkg/zzverif/vsym"
)

func c07Call(e *EngineFacade, which int, k, v []byte) {
	switch which {
	case 0:
		e.Put(k, v)
	case 1:
		e.Get(k)
	case 2:
		e.Delete(k)
	case 3:
		it, err := e.GetIterator()
		if err == nil {
			for it.SeekToFirst(); it.Valid(); it.Next() {
				_ = it.Key()
			}
		}
	case 4:
		tx, err := e.BeginTransaction(false)
		if err == nil {
			tx.Put(k, v)
			tx.Commit()
		}
	case 5:
		e.FlushImMemTables()
	case 6:
		e.GetStats()
	case 7:
		e.ApplyBatch([]*wal.Entry{{Type: wal.OpTypeDelete, Key: k}})
	case 8:
		e.IsDeleted(k)
	case 9:
		tx, err := e.BeginTransaction(true)
		if err == nil {
			tx.Get(k)
			tx.Rollback()
		}
	}
}

// VerifC07_Pairs: every unordered pair of entry points, one call each from two goroutines, on a small engine:
// no data race, no panic, no deadlock, both calls return.
func VerifC07_Pairs() {
	e, err := NewEngineFacade(vsym.Dir())
	vsym.Assert(err == nil, "open failed")
	k1, k2 := vsym.Bytes("k1", 1), vsym.Bytes("k2", 1)
	e.Put(k1, vsym.Bytes("v0", 1))
	a := vsym.IntRange("a", 0, 9)
	b := vsym.IntRange("b", a, 9)
	var wg sync.WaitGroup
	wg.Add(2)
	go func() { defer wg.Done(); c07Call(e, a, k1, vsym.Bytes("va", 1)) }()
	go func() { defer wg.Done(); c07Call(e, b, k2, vsym.Bytes("vb", 1)) }()
	wg.Wait()
	vsym.Reach("done")
}
