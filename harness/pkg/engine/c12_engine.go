//go:build verif

package engine

import "github.com/KevoDB/kevo/pkg/zzverif/vsym"

// VerifC12_CompactionInWorkload: a workload of put+flush / delete+flush steps (each leaves a level-0 table) with
// triggered compaction cycles at any point and with "retire the flushed logs and reopen" steps, on an engine whose
// level-0 trigger is two tables. Compaction never changes what a key reads as - neither in the running engine nor
// after the database is reopened on the compacted files with the old log files gone: every key keeps the value of
// its most recent write, a deleted key stays absent.
func VerifC12_CompactionInWorkload() {
	h := &hEnv{maxMem: 2, wk: 1}
	N := 4
	if vsym.Thorough() {
		N, h.wk = 5, 0
	}
	h.hKeys(2)
	h.hOpen(true, false)
	n := vsym.IntRange("n", 2, N)
	compactions := 0
	for i := 0; i < n; i++ {
		before := h.flushes
		h.hStep(1<<hPutFlush|1<<hDelFlush|1<<hCompact|1<<hRetire, 0)
		_ = before
		compactions++
		// after every step (a compaction cycle in particular) the engine still reads as the model says
		h.hProbeKey(0)
	}
	h.hProbe()
	vsym.Reach("done")
}
