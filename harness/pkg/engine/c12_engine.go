//go:build verif

package engine

import "github.com/KevoDB/kevo/pkg/zzverif/vsym"

// VerifC12_CompactionInWorkload: a workload of put+flush / delete+flush steps (each leaves a level-0 table) with
// triggered compaction cycles at any point and with "retire the flushed logs and reopen" steps, on an engine whose
// level-0 trigger is two tables - on a fresh database, or on one whose keys already sit in level 2. Compaction never changes what a key reads as - neither in the running engine nor
// after the database is reopened on the compacted files with the old log files gone: every key keeps the value of
// its most recent write, a deleted key stays absent.
func VerifC12_CompactionInWorkload() {
	h := &hEnv{maxMem: 2, wk: 1}
	N := 4
	if vsym.Thorough() {
		N, h.wk = 5, 0
	}
	h.hKeys(2)
	h.hOpen(true, false)
	if vsym.IntRange("aged", 0, 1) == 1 {
		// the database is not young: both keys already sit two levels down (range compactions push them there)
		h.hDeepPrelude(2)
	}
	n := vsym.IntRange("n", 2, N)
	compactions := 0
	for i := 0; i < n; i++ {
		before := h.flushes
		h.hStep(1<<hPutFlush|1<<hDelFlush|1<<hCompact|1<<hRetire, 0)
		_ = before
		compactions++
		// after every step (a compaction cycle in particular) the engine still reads as the model says
		h.hProbeKey(0)
	}
	h.hProbe()
	vsym.Reach("done")
}

// VerifC12_CrashDuringCompaction: two or three flushed level-0 tables hold successive versions of a key (a value, an
// overwrite or a delete) and another key; a compaction cycle is triggered and the process dies at any file-system
// step of it (output write, sync, rename, input removal; both crash models). The flushed log files are then retired
// - everything they hold is in tables - and the database is reopened: from whatever set of table files the crash
// left behind, every key still reads as its latest write says (inputs may only disappear once the outputs that
// replace them are complete and durable).
func VerifC12_CrashDuringCompaction() {
	h := &hEnv{maxMem: 2}
	h.hKeys(2)
	h.hOpen(true, false)
	n := 2
	if vsym.Thorough() {
		n = vsym.IntRange("tables", 2, 3)
	}
	for i := 0; i < n; i++ {
		if i > 0 && vsym.IntRange("del", 0, 1) == 1 {
			vsym.Assert(h.e.Delete(h.K[0]) == nil, "Delete failed")
			h.present[0] = false
		} else {
			v := vsym.Bytes("v", 1)
			vsym.Assert(h.e.Put(h.K[0], v) == nil, "Put failed")
			h.present[0], h.val[0] = true, v
		}
		if i == 0 {
			v := vsym.Bytes("w", 1)
			vsym.Assert(h.e.Put(h.K[1], v) == nil, "Put failed")
			h.present[1], h.val[1] = true, v
		}
		vsym.Assert(h.e.FlushImMemTables() == nil, "Flush failed")
	}
	vsym.Durable()
	mode := vsym.IntRange("mode", 1, 2)
	e := h.e
	vsym.CrashRegion(mode, func() { e.TriggerCompaction() })
	if vsym.CrashKind() == 0 {
		vsym.Assert(h.e.Close() == nil, "Close failed")
	}
	// retire the flushed logs, reopen on the table files alone
	h.e = nil
	h.retireLogs()
	h.hOpen(false, false)
	h.hProbeKey(0)
	h.hProbeKey(1)
	vsym.Reach("done")
}

// VerifC12_RangeCompaction: an older generation of some of three keys sits one or two levels down; a newer generation
// (one or two puts/deletes) is flushed into one level-0 table; then CompactRange over a symbolic key range [lo,hi] is
// run (one or two such rounds). A range compaction never changes what any key reads as - in the running engine and
// after the flushed logs are retired and the database is reopened on the tables alone: newer data must not end up
// below older data, a deleted key must not come back.
func VerifC12_RangeCompaction() {
	h := &hEnv{maxMem: 2}
	h.hKeys(3)
	h.hOpen(true, false)
	e := h.e
	mask := vsym.IntRange("older", 1, 7)
	first, last := -1, -1
	for i := 0; i < 3; i++ {
		if mask&(1<<i) != 0 {
			v := vsym.Bytes("ov", 1)
			vsym.Assert(e.Put(h.K[i], v) == nil, "Put failed")
			h.present[i], h.val[i] = true, v
			if first < 0 {
				first = i
			}
			last = i
		}
	}
	vsym.Assert(e.FlushImMemTables() == nil, "Flush failed")
	depth := 1
	if vsym.Thorough() {
		depth = vsym.IntRange("depth", 1, 2)
	}
	for l := 0; l < depth; l++ {
		vsym.Assert(e.CompactRange(h.K[first], h.K[last]) == nil, "CompactRange failed")
	}
	rounds := 1
	if vsym.Thorough() {
		rounds = vsym.IntRange("rounds", 1, 2)
	}
	for r := 0; r < rounds; r++ {
		w := vsym.IntRange("writes", 1, 2)
		for j := 0; j < w; j++ {
			ki := vsym.IntRange("ki", 0, 2)
			if vsym.IntRange("del", 0, 1) == 0 {
				v := vsym.Bytes("nv", 1)
				vsym.Assert(e.Put(h.K[ki], v) == nil, "Put failed")
				h.present[ki], h.val[ki] = true, v
			} else {
				vsym.Assert(e.Delete(h.K[ki]) == nil, "Delete failed")
				h.present[ki] = false
			}
		}
		vsym.Assert(e.FlushImMemTables() == nil, "Flush failed")
		lo := vsym.IntRange("lo", 0, 2)
		hi := vsym.IntRange("hi", lo, 2)
		vsym.Assert(e.CompactRange(h.K[lo], h.K[hi]) == nil, "CompactRange failed")
		for i := 0; i < 3; i++ {
			h.hProbeKey(i)
		}
	}
	vsym.Assert(e.Close() == nil, "Close failed")
	h.retireLogs()
	h.hOpen(false, false)
	for i := 0; i < 3; i++ {
		h.hProbeKey(i)
	}
	vsym.Reach("done")
}

// VerifC12_RepeatedCompactions: several compaction cycles in one engine lifetime. Each round flushes two level-0
// tables - versions of one key, or of two keys, with puts and deletes - and triggers a compaction (the level-0 trigger
// is 2), so that later cycles meet the outputs of earlier ones (same level, file numbers that restart with every
// compaction) and whatever the compaction code remembers from cycle to cycle; optionally the engine is restarted on
// the tables alone after one of the rounds. After every round, and at the end after the logs are retired and the
// database is reopened, every key reads as its latest write says.
func VerifC12_RepeatedCompactions() {
	h := &hEnv{maxMem: 2}
	h.hKeys(2)
	h.hOpen(true, false)
	R := 3
	if vsym.Thorough() {
		R = 4
	}
	restartAfter := vsym.IntRange("restartAfter", 0, R-1) // 0 = never
	write := func(ki int, del bool) {
		if del {
			vsym.Assert(h.e.Delete(h.K[ki]) == nil, "Delete failed")
			h.present[ki] = false
		} else {
			v := vsym.Bytes("v", 1)
			vsym.Assert(h.e.Put(h.K[ki], v) == nil, "Put failed")
			h.present[ki], h.val[ki] = true, v
		}
		vsym.Assert(h.e.FlushImMemTables() == nil, "Flush failed")
	}
	for r := 1; r <= R; r++ {
		shape := vsym.IntRange("shape", 0, 2)
		del := vsym.IntRange("del", 0, 1) == 1
		switch shape {
		case 0: // both keys
			write(0, del)
			write(1, false)
		case 1: // two versions of the first key only
			write(0, false)
			write(0, del)
		case 2: // two versions of the second key only
			write(1, false)
			write(1, del)
		}
		vsym.Assert(h.e.TriggerCompaction() == nil, "TriggerCompaction failed")
		h.hProbeKey(0)
		h.hProbeKey(1)
		if r == restartAfter {
			vsym.Assert(h.e.Close() == nil, "Close failed")
			h.retireLogs()
			h.hOpen(false, false)
			h.hProbeKey(0)
			h.hProbeKey(1)
		}
	}
	vsym.Assert(h.e.Close() == nil, "Close failed")
	h.retireLogs()
	h.hOpen(false, false)
	h.hProbeKey(0)
	h.hProbeKey(1)
	vsym.Reach("done")
}

// VerifC12_MarkerOutlivesUnrelatedCompaction: both keys sit two levels down; one of them is deleted and the marker
// is compacted into level 1 (together with a write of the other key); optionally the engine restarts (whatever it
// remembered about deletes is gone); then two more tables that touch only the OTHER key are flushed and compacted,
// which rewrites the level-1 table holding the marker. The deleted key must stay deleted - in the running engine and
// after the logs are retired and the database is reopened - for as long as its old version exists further down.
func VerifC12_MarkerOutlivesUnrelatedCompaction() {
	h := &hEnv{maxMem: 2}
	h.hKeys(2)
	h.hOpen(true, false)
	d := vsym.IntRange("deleted", 0, 1) // the key that is deleted; the other one keeps being written
	o := 1 - d
	// two levels down: both keys in one table, or only the key that will be deleted (a table whose key range does
	// not reach the other key)
	if vsym.IntRange("deepBoth", 0, 1) == 1 {
		h.hDeepPrelude(2)
	} else {
		v := vsym.Bytes("pv", 1)
		vsym.Assert(h.e.Put(h.K[d], v) == nil, "Put failed")
		h.present[d], h.val[d] = true, v
		vsym.Assert(h.e.FlushImMemTables() == nil, "Flush failed")
		for l := 0; l < 2; l++ {
			vsym.Assert(h.e.CompactRange(h.K[0], h.K[1]) == nil, "CompactRange failed")
		}
		h.dirty = false
	}
	put := func(ki int) {
		v := vsym.Bytes("v", 1)
		vsym.Assert(h.e.Put(h.K[ki], v) == nil, "Put failed")
		h.present[ki], h.val[ki] = true, v
		vsym.Assert(h.e.FlushImMemTables() == nil, "Flush failed")
	}
	vsym.Assert(h.e.Delete(h.K[d]) == nil, "Delete failed")
	h.present[d] = false
	vsym.Assert(h.e.FlushImMemTables() == nil, "Flush failed")
	put(o)
	vsym.Assert(h.e.TriggerCompaction() == nil, "TriggerCompaction failed")
	h.hProbeKey(0)
	h.hProbeKey(1)
	if vsym.IntRange("restart", 0, 1) == 1 {
		vsym.Assert(h.e.Close() == nil, "Close failed")
		h.retireLogs()
		h.hOpen(false, false)
		h.hProbeKey(0)
		h.hProbeKey(1)
	}
	rounds := vsym.IntRange("rounds", 1, 2)
	for r := 0; r < rounds; r++ {
		put(o)
		put(o)
		vsym.Assert(h.e.TriggerCompaction() == nil, "TriggerCompaction failed")
		h.hProbeKey(0)
		h.hProbeKey(1)
	}
	vsym.Assert(h.e.Close() == nil, "Close failed")
	h.retireLogs()
	h.hOpen(false, false)
	h.hProbeKey(0)
	h.hProbeKey(1)
	vsym.Reach("done")
}
