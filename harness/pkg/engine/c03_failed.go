//go:build verif

package engine

import (
	"github.com/KevoDB/kevo/pkg/wal"
	"github.com/KevoDB/kevo/pkg/zzverif/vsym"
)

// VerifC03_FailedCommitNoTrace: a transaction whose commit fails (one value does not fit a log record, at a
// symbolic position of the batch) leaves no trace: none of its keys is visible afterwards, nor to a later
// transaction (which commits nothing of it), nor after a later
// successful write, a clean close and a reopen (the log must not hold a part of the failed batch).
func VerifC03_FailedCommitNoTrace() {
	h := &hEnv{}
	h.hKeys(3)
	h.hOpen(true, false)
	e := h.e
	tx, err := e.BeginTransaction(false)
	vsym.Assert(err == nil, "BeginTransaction failed")
	big := make([]byte, wal.MaxRecordSize+vsym.IntRange("over", -20, 1)) // around the largest value a batch record can hold
	bigAt := vsym.IntRange("bigAt", 0, 2)
	for i := 0; i < 3; i++ {
		if i == bigAt {
			vsym.Assert(tx.Put(h.K[i], big) == nil, "tx.Put failed")
		} else {
			vsym.Assert(tx.Put(h.K[i], vsym.Bytes("v", 1)) == nil, "tx.Put failed")
		}
	}
	cerr := tx.Commit()
	vsym.Observe("commit", cerr)
	if cerr == nil {
		// the batch fitted: all three keys must be there (atomicity of a successful commit)
		for i := 0; i < 3; i++ {
			_, gerr := e.Get(h.K[i])
			vsym.Assert(gerr == nil, "committed transaction is missing a key")
		}
		vsym.Reach("committed")
		return
	}
	for i := 0; i < 3; i++ {
		_, gerr := e.Get(h.K[i])
		vsym.Assert(gerr != nil, "a failed commit left one of its writes visible")
	}
	// a later transaction (read-only or read-write) inherits nothing of the failed one
	tx2, err := e.BeginTransaction(vsym.IntRange("laterReadOnly", 0, 1) == 1)
	vsym.Assert(err == nil, "BeginTransaction after a failed commit failed")
	for i := 0; i < 3; i++ {
		_, gerr := tx2.Get(h.K[i])
		vsym.Assert(gerr != nil, "a later transaction sees a write of a transaction whose commit failed")
	}
	vsym.Assert(tx2.Commit() == nil, "the commit of a later transaction failed")
	for i := 0; i < 3; i++ {
		_, gerr := e.Get(h.K[i])
		vsym.Assert(gerr != nil, "a later transaction committed writes of a transaction whose commit failed")
	}
	// life goes on: one more acknowledged write on another key, then close and reopen
	other := vsym.Bytes("other", 2)
	vsym.Assume(vsym.Not(vsym.EqBytes(other, h.K[2])))
	vsym.Assert(e.Put(other, vsym.Bytes("ov", 1)) == nil, "Put after a failed commit failed")
	vsym.Assert(e.Close() == nil, "Close failed")
	h.hOpen(false, false)
	for i := 0; i < 3; i++ {
		_, gerr := h.e.Get(h.K[i])
		vsym.Assert(gerr != nil, "a failed commit's write appears after reopen (part of the batch reached the log)")
	}
	_, gerr := h.e.Get(other)
	vsym.Assert(gerr == nil, "acknowledged write after a failed commit lost")
	vsym.Reach("failed")
}
