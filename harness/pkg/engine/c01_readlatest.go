//go:build verif

package engine

import (
	"github.com/KevoDB/kevo/pkg/wal"
	"github.com/KevoDB/kevo/pkg/zzverif/vsym"
)

// VerifC01_ReadLatest: programs of puts, deletes, flushes and clean reopenings over a 2-key (thorough: 3-key)
// universe, with the default or a 1-byte memtable; afterwards a get of a symbolic probe key returns exactly the
// latest put of that key, or not-found.
func VerifC01_ReadLatest() {
	h := &hEnv{}
	nk, N := 2, 4
	if vsym.Thorough() {
		nk, N = 3, 5
	}
	h.hKeys(nk)
	h.hOpen(true, vsym.IntRange("small", 0, 1) == 1)
	n := vsym.IntRange("n", 1, N)
	for i := 0; i < n; i++ {
		h.hStep(1<<hPut|1<<hDelete|1<<hFlush|1<<hReopen, 0)
	}
	h.hProbe()
	vsym.Reach("done")
}

// VerifC01_ReadLatestTx: the same with committed / rolled-back transactions and two-entry batches in the mix.
func VerifC01_ReadLatestTx() {
	h := &hEnv{}
	N := 2
	if vsym.Thorough() {
		N = 3
	}
	h.hKeys(2)
	h.hOpen(true, false)
	n := vsym.IntRange("n", 1, N)
	for i := 0; i < n; i++ {
		h.hStep(1<<hPut|1<<hTx|1<<hBatch|1<<hFlush, 0)
	}
	h.hProbe()
	vsym.Reach("done")
}

// VerifC01_ValueShapes: empty, nil, one- and two-byte values through memtable, flush and reopen: a put of an
// empty (or nil) value must read back as found-and-empty, never as deleted.
func VerifC01_ValueShapes() {
	h := &hEnv{}
	N := 3
	if vsym.Thorough() {
		N = 4
	}
	h.hKeys(2)
	h.hOpen(true, false)
	n := vsym.IntRange("n", 1, N)
	for i := 0; i < n; i++ {
		h.hStep(1<<hPut|1<<hDelete|1<<hFlush|1<<hReopen, 3)
	}
	h.hProbe()
	vsym.Reach("done")
}

// VerifC01_ReadFromTables: programs in which the flushed log files are retired (closed, removed like WAL retention
// removes fully flushed files, reopened), so that reads are served by the SSTables and by their load order, not
// by replayed memtables: put+flush / delete+flush / retire+reopen steps, then a get of a symbolic probe key.
func VerifC01_ReadFromTables() {
	h := &hEnv{wk: 1} // quick: the steps write one key (the probe still ranges over every key)
	N := 5
	if vsym.Thorough() {
		N, h.wk = 6, 0
	}
	h.hKeys(2)
	h.hOpen(true, false)
	n := vsym.IntRange("n", 2, N)
	for i := 0; i < n; i++ {
		h.hStep(1<<hPutFlush|1<<hDelFlush|1<<hRetire, 0)
	}
	h.hProbe()
	vsym.Reach("done")
}

// VerifC01_LargeValues: values around the sizes at which the log fragments an entry (spill-over of exactly one full
// record, +-1) and a 64 KiB value (more than one SSTable block's worth), mixed with small puts, flush and reopen:
// every key reads back exactly the bytes of its latest put.
func VerifC01_LargeValues() {
	h := &hEnv{}
	N := 2
	if vsym.Thorough() {
		N = 3
	}
	h.hKeys(2)
	h.hOpen(true, false)
	n := vsym.IntRange("n", 1, N)
	for i := 0; i < n; i++ {
		switch vsym.IntRange("op", 0, 3) {
		case 0:
			ki := vsym.IntRange("ki", 0, 1)
			var v []byte
			if vsym.IntRange("size", 0, 1) == 0 {
				v = hSparse("big", wal.MaxRecordSize-4+vsym.IntRange("d", -1, 1))
			} else {
				v = hSparse("big", 64*1024)
			}
			vsym.Assert(h.e.Put(h.K[ki], v) == nil, "Put of a large value failed")
			h.present[ki], h.val[ki] = true, v
		case 1:
			ki := vsym.IntRange("ki", 0, 1)
			v := vsym.Bytes("v", 1)
			vsym.Assert(h.e.Put(h.K[ki], v) == nil, "Put failed")
			h.present[ki], h.val[ki] = true, v
		case 2:
			vsym.Assert(h.e.FlushImMemTables() == nil, "Flush failed")
		case 3:
			vsym.Assert(h.e.Close() == nil, "Close failed")
			h.hOpen(false, false)
		}
	}
	qi := vsym.IntRange("qi", 0, 1)
	got, err := h.e.Get(h.K[qi])
	vsym.Assert((err == nil) == h.present[qi], "a key with a large value is missing (or an unwritten key found)")
	if err == nil && h.present[qi] {
		vsym.Assert(len(got) == len(h.val[qi]) && vsym.EqBytes(got, h.val[qi]), "a large value does not read back as it was written")
	}
	vsym.Reach("done")
}
