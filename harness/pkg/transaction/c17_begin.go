//go:build verif

package transaction

import (
	"context"

	"github.com/KevoDB/kevo/pkg/common/iterator"
	"github.com/KevoDB/kevo/pkg/wal"
	"github.com/KevoDB/kevo/pkg/zzverif/vsym"
)

type fakeStorage struct{ applied int }

func (f *fakeStorage) Get(key []byte) ([]byte, error)          { return nil, ErrKeyNotFound }
func (f *fakeStorage) ApplyBatch(entries []*wal.Entry) error   { f.applied += len(entries); return nil }
func (f *fakeStorage) GetIterator() (iterator.Iterator, error) { return &emptyIterator{}, nil }
func (f *fakeStorage) GetRangeIterator(s, e []byte) (iterator.Iterator, error) {
	return &emptyIterator{}, nil
}

// VerifC17_BeginTimeoutNoLeak: Begin while another transaction holds the lock; the 10 s deadline may fire at any moment.
// When everything has settled, a Begin that reported failure must not have left a transaction holding the lock.
func VerifC17_BeginTimeoutNoLeak() {
	mgr := NewManager(&fakeStorage{}, nil)
	reg := NewRegistry()
	holder, err := mgr.BeginTransaction(false)
	vsym.Assert(err == nil, "holder begin failed")
	done := make(chan struct{})
	var id string
	var berr error
	go func() {
		id, berr = reg.Begin(context.Background(), mgr, false)
		close(done)
	}()
	vsym.Quiesce()
	vsym.Assert(holder.Rollback() == nil, "holder rollback failed")
	<-done
	vsym.Quiesce()
	if berr != nil {
		vsym.Assert(vsym.Held(&mgr.txLock) == 0, "a Begin that timed out left a transaction holding the database lock")
	} else {
		tx, ok := reg.Get(id)
		vsym.Assert(ok, "successful Begin but handle unknown")
		if ok {
			vsym.Assert(tx.Rollback() == nil, "rollback failed")
			vsym.Assert(vsym.Held(&mgr.txLock) == 0, "lock still held after rollback")
		}
	}
	vsym.Reach("done")
}
