//go:build verif

package transaction

import (
	"github.com/KevoDB/kevo/pkg/config"
	"github.com/KevoDB/kevo/pkg/engine/storage"
	"github.com/KevoDB/kevo/pkg/stats"
	"github.com/KevoDB/kevo/pkg/zzverif/vsym"
)

// VerifC03_TxSequential: a read-write transaction with a symbolic body over a 2-key universe, then commit or
// rollback; afterwards the store reads as the model says (last operation wins / nothing happened). The caller's
// key and value buffers are overwritten after each call: the transaction must have captured them at call time.
func VerifC03_TxSequential() {
	cfg := config.NewDefaultConfig(vsym.Dir())
	sm, err := storage.NewManager(cfg, stats.NewAtomicCollector())
	vsym.Assert(err == nil, "NewManager failed")
	mgr := NewManager(sm, nil)
	K := [2][]byte{vsym.Bytes("K0", 1), vsym.Bytes("K1", 1)}
	vsym.Assume(K[0][0] < K[1][0])
	// pre-state: K0 may already exist
	var present [2]bool
	var val [2][]byte
	if vsym.IntRange("pre", 0, 1) == 1 {
		v := vsym.Bytes("pv", 1)
		vsym.Assert(sm.Put(K[0], v) == nil, "pre put failed")
		present[0], val[0] = true, v
	}
	tx, err := mgr.BeginTransaction(false)
	vsym.Assert(err == nil, "begin failed")
	var tpresent [2]bool = present
	var tval [2][]byte = val
	reuse := vsym.IntRange("reuse", 0, 1) == 1
	n := vsym.IntRange("n", 1, 3)
	for i := 0; i < n; i++ {
		ki := vsym.IntRange("ki", 0, 1)
		kbuf := append([]byte(nil), K[ki]...)
		if vsym.IntRange("op", 0, 1) == 0 {
			v := vsym.Bytes("v", 1)
			vbuf := append([]byte(nil), v...)
			vsym.Assert(tx.Put(kbuf, vbuf) == nil, "tx put failed")
			tpresent[ki], tval[ki] = true, v
			if reuse {
				vbuf[0] = vsym.Byte("junkv")
			}
		} else {
			vsym.Assert(tx.Delete(kbuf) == nil, "tx delete failed")
			tpresent[ki] = false
		}
		if reuse {
			kbuf[0] = vsym.Byte("junkk")
		}
		// a transaction sees its own writes
		got, gerr := tx.Get(K[ki])
		vsym.Assert((gerr == nil) == tpresent[ki], "transaction does not see its own write/delete")
		if gerr == nil && tpresent[ki] {
			vsym.Assert(vsym.EqBytes(got, tval[ki]), "transaction reads a wrong own value")
		}
	}
	// nothing reaches storage before commit
	for i := 0; i < 2; i++ {
		got, gerr := sm.Get(K[i])
		vsym.Assert((gerr == nil) == present[i], "uncommitted write visible in storage")
		if gerr == nil && present[i] {
			vsym.Assert(vsym.EqBytes(got, val[i]), "uncommitted write changed a stored value")
		}
	}
	if vsym.IntRange("commit", 0, 1) == 1 {
		vsym.Assert(tx.Commit() == nil, "commit failed")
		present, val = tpresent, tval
	} else {
		vsym.Assert(tx.Rollback() == nil, "rollback failed")
	}
	vsym.Assert(vsym.Held(&mgr.txLock) == 0, "isolation lock still held after finish")
	qi := vsym.IntRange("qi", 0, 1)
	got, gerr := sm.Get(K[qi])
	vsym.Assert((gerr == nil) == present[qi], "committed/rolled-back state wrong (presence)")
	if gerr == nil && present[qi] {
		vsym.Assert(vsym.EqBytes(got, val[qi]), "committed/rolled-back state wrong (value)")
	}
	// a finished transaction is closed
	vsym.Assert(tx.Commit() != nil && tx.Rollback() != nil, "second finish must fail")
	vsym.Assert(tx.Put(K[0], K[0]) != nil, "put after finish must fail")
	vsym.Reach("done")
}
