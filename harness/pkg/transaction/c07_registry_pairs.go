//go:build verif

package transaction

import (
	"context"
	"sync"

	"github.com/KevoDB/kevo/pkg/zzverif/vsym"
)

func c07RegCall(reg *RegistryImpl, mgr *Manager, which int, conn string, known string) {
	ctx := context.WithValue(context.Background(), "peer", conn)
	switch which {
	case 0: // begin read-only, use, finish by handle
		id, err := reg.Begin(ctx, mgr, true)
		if err == nil {
			if tx, ok := reg.Get(id); ok {
				tx.Get([]byte{1})
				tx.Rollback()
			}
			reg.Remove(id)
		}
	case 1: // begin read-only and abandon
		reg.Begin(ctx, mgr, true)
	case 2: // look an existing handle up and use it
		if tx, ok := reg.Get(known); ok {
			tx.Get([]byte{1})
		}
	case 3:
		reg.Remove(known)
	case 4:
		reg.CleanupConnection(conn)
	case 5:
		reg.CleanupStaleTransactions()
	case 6:
		reg.GracefulShutdown(context.Background())
	}
}

// VerifC07_RegistryPairs: every unordered pair of seven registry entry points (begin+use+finish, begin+abandon, use of
// an existing handle, Remove, CleanupConnection, the stale-transaction sweep, GracefulShutdown) from two goroutines of
// the same or of different connections, on a registry that already holds one read-only transaction: no data race,
// no panic, no deadlock; both calls return. (GracefulShutdown is raced with every other entry point, not with itself.)
func VerifC07_RegistryPairs() {
	mgr := NewManager(&fakeStorage{}, nil)
	reg := NewRegistry().(*RegistryImpl)
	known, err := reg.Begin(context.WithValue(context.Background(), "peer", "c1"), mgr, true)
	if err != nil {
		return // the begin deadline may fire at any moment, also during the setup: nothing to race then
	}
	a := vsym.IntRange("a", 0, 6)
	b := vsym.IntRange("b", a, 6)
	// two shutdowns at once are to the registry what Close concurrent with Close is to the engine: out of scope
	vsym.Assume(!(a == 6 && b == 6))
	connB := "c2"
	if vsym.IntRange("sameConnection", 0, 1) == 1 {
		connB = "c1"
	}
	var wg sync.WaitGroup
	wg.Add(2)
	go func() { defer wg.Done(); c07RegCall(reg, mgr, a, "c1", known) }()
	go func() { defer wg.Done(); c07RegCall(reg, mgr, b, connB, known) }()
	wg.Wait()
	vsym.Reach("done")
}
