//go:build verif

package transaction

import (
	"context"
	"time"

	"github.com/KevoDB/kevo/pkg/zzverif/vsym"
)

// VerifC17_RegistryCleanup: a registry holding two read-only transactions of two connections, with symbolic ages
// and idle times; then either the periodic cleanup body or the cleanup of one connection runs. Every
// transaction past its lifetime or idle limit (resp. of the cleaned connection) is rolled back - its share of
// the database lock released - and unreachable by handle; every other one is untouched and still usable.
func VerifC17_RegistryCleanup() {
	st := &recStorage{preK: []byte{1}, preV: []byte{1}}
	mgr := NewManager(st, nil)
	st.lock = &mgr.txLock
	reg := NewRegistryWithTTL(5*time.Minute, 30*time.Second, 75, 90).(*RegistryImpl)
	const margin = uint64(2 * time.Second) // the clock moves between "now" here and "now" inside the cleanup
	ids := [2]string{"c1-tx-1", "c2-tx-2"}
	conns := [2]string{"c1", "c2"}
	var txs [2]*TransactionImpl
	var age, idle [2]uint64
	now := time.Now()
	for i := 0; i < 2; i++ {
		t, err := mgr.BeginTransaction(true)
		vsym.Assert(err == nil, "begin failed")
		txs[i] = t.(*TransactionImpl)
		age[i], idle[i] = vsym.Uint64("age"), vsym.Uint64("idle")
		vsym.Assume(age[i] < uint64(24*time.Hour) && idle[i] <= age[i])
		// keep away from the limits by the clock margin, otherwise either outcome is legitimate
		ttl := uint64(txs[i].ttl)
		vsym.Assume(age[i] > ttl+margin || age[i]+margin < ttl)
		vsym.Assume(idle[i] > uint64(30*time.Second)+margin || idle[i]+margin < uint64(30*time.Second))
		txs[i].creationTime = now.Add(-time.Duration(age[i]))
		txs[i].lastActiveTime = now.Add(-time.Duration(idle[i]))
		reg.transactions[ids[i]] = txs[i]
		reg.connectionTxs[conns[i]] = map[string]struct{}{ids[i]: {}}
	}
	var mustGo, mustStay [2]bool
	if vsym.IntRange("what", 0, 1) == 0 {
		reg.CleanupStaleTransactions()
		for i := 0; i < 2; i++ {
			mustGo[i] = age[i] > uint64(txs[i].ttl) || idle[i] > uint64(30*time.Second)
			mustStay[i] = !mustGo[i]
		}
	} else {
		c := vsym.IntRange("conn", 0, 1)
		reg.CleanupConnection(conns[c])
		mustGo[c], mustStay[1-c] = true, true
	}
	held := 0
	for i := 0; i < 2; i++ {
		_, ok := reg.Get(ids[i])
		if mustGo[i] {
			vsym.Assert(!ok, "an expired / disconnected transaction is still reachable by its handle")
			vsym.Assert(!txs[i].active.Load(), "an expired / disconnected transaction was not rolled back")
			_, gerr := txs[i].Get([]byte{1})
			vsym.Assert(gerr == ErrTransactionClosed, "an expired / disconnected transaction is still usable")
		}
		if mustStay[i] {
			vsym.Assert(ok, "a live transaction lost its handle")
			vsym.Assert(txs[i].active.Load(), "a live transaction was rolled back by the cleanup")
			held++
		}
	}
	if held == 0 {
		vsym.Assert(vsym.Held(&mgr.txLock) == 0, "the database lock is still held although every transaction was cleaned up")
	} else {
		vsym.Assert(vsym.Held(&mgr.txLock) == 1, "a live read-only transaction lost its share of the database lock")
	}
	vsym.Reach("done")
}

// VerifC17_GracefulShutdown: a registry holding one read-write transaction or two read-only ones (some with buffered
// writes) is shut down. Every transaction is rolled back - the database lock is free afterwards, a buffered write
// never reaches storage, the transactions are closed - and the handles are gone, whatever the moment at which the
// per-transaction rollback deadline fires.
func VerifC17_GracefulShutdown() {
	st := &recStorage{preK: []byte{1}, preV: []byte{1}}
	mgr := NewManager(st, nil)
	st.lock = &mgr.txLock
	reg := NewRegistryWithTTL(5*time.Minute, 30*time.Second, 75, 90).(*RegistryImpl)
	var txs []Transaction
	if vsym.IntRange("shape", 0, 1) == 0 {
		t, err := mgr.BeginTransaction(false)
		vsym.Assert(err == nil, "begin failed")
		if vsym.IntRange("wrote", 0, 1) == 1 {
			vsym.Assert(t.Put(vsym.Bytes("k", 1), vsym.Bytes("v", 1)) == nil, "tx.Put failed")
		}
		txs = append(txs, t)
	} else {
		for i := 0; i < 2; i++ {
			t, err := mgr.BeginTransaction(true)
			vsym.Assert(err == nil, "begin failed")
			txs = append(txs, t)
		}
	}
	ids := []string{"c1-tx-1", "c2-tx-2"}
	for i, t := range txs {
		reg.transactions[ids[i]] = t
		reg.connectionTxs[ids[i][:2]] = map[string]struct{}{ids[i]: {}}
	}
	serr := reg.GracefulShutdown(context.Background())
	vsym.Quiesce()
	_ = serr
	for i, t := range txs {
		_, ok := reg.Get(ids[i])
		vsym.Assert(!ok, "a transaction is still registered after the registry was shut down")
		vsym.Assert(t.Commit() == ErrTransactionClosed, "a transaction is still open (can commit) after the registry was shut down")
	}
	vsym.Assert(vsym.Held(&mgr.txLock) == 0, "the database lock is still held after the registry was shut down")
	vsym.Assert(len(st.batches) == 0, "a buffered write of a transaction rolled back by the shutdown reached storage")
	vsym.Reach("done")
}
