//go:build verif

package transaction

import (
	"errors"

	"github.com/KevoDB/kevo/pkg/common/iterator"
	"github.com/KevoDB/kevo/pkg/wal"
	"github.com/KevoDB/kevo/pkg/zzverif/vsym"
)

// recStorage is a recording storage backend: one pre-existing key, every access notes whether the isolation
// lock was held at that moment, mutations are recorded.
type recStorage struct {
	lock      interface{} // *sync.RWMutex of the manager
	preK      []byte
	preV      []byte
	batches   [][]*wal.Entry
	reads     int
	unlocked  int  // storage accesses made while the isolation lock was free
	failBatch bool // the storage layer refuses the batch (log full, entry too large, engine closed ...)
	refused   int
}

func (s *recStorage) note() {
	if vsym.Held(s.lock) == 0 {
		s.unlocked++
	}
}
func (s *recStorage) Get(key []byte) ([]byte, error) {
	s.note()
	s.reads++
	if vsym.EqBytes(key, s.preK) {
		return s.preV, nil
	}
	return nil, ErrKeyNotFound
}
func (s *recStorage) ApplyBatch(entries []*wal.Entry) error {
	s.note()
	if s.failBatch {
		s.refused++
		return errors.New("storage refuses the batch")
	}
	s.batches = append(s.batches, entries)
	return nil
}
func (s *recStorage) GetIterator() (iterator.Iterator, error) { s.note(); return &emptyIterator{}, nil }
func (s *recStorage) GetRangeIterator(a, b []byte) (iterator.Iterator, error) {
	s.note()
	return &emptyIterator{}, nil
}

// VerifC17_TxCallSequences (also C04's lock discipline): every call sequence of length <=4 (thorough <=5) over one
// read-write or read-only transaction. The isolation lock is held in the right mode from begin to the first
// finish and free afterwards; every storage access happens under it; commit/rollback take effect at most once;
// any use after finish fails with the closed error and has no effect; a read-only transaction refuses writes;
// own writes are read back; nothing reaches storage before commit and exactly one batch (last operation per key
// wins) reaches it at commit.
func VerifC17_TxCallSequences() {
	st := &recStorage{preK: vsym.Bytes("pk", 1), preV: vsym.Bytes("pv", 1)}
	mgr := NewManager(st, nil)
	st.lock = &mgr.txLock
	ro := vsym.IntRange("readonly", 0, 1) == 1
	st.failBatch = vsym.IntRange("storagefails", 0, 1) == 1
	tx, err := mgr.BeginTransaction(ro)
	vsym.Assert(err == nil, "begin failed")
	K := [2][]byte{vsym.Bytes("K0", 1), vsym.Bytes("K1", 1)}
	vsym.Assume(vsym.LessBytes(K[0], K[1]))
	wantHeld := 2
	if ro {
		wantHeld = 1
	}
	finished, committed := false, false
	// model of the buffer: 0 untouched, 1 put, 2 deleted
	var st8 [2]int
	var val [2][]byte
	N := 4
	if vsym.Thorough() {
		N = 5
	}
	n := vsym.IntRange("n", 1, N)
	for i := 0; i < n; i++ {
		if !finished {
			vsym.Assert(vsym.Held(&mgr.txLock) == wantHeld, "isolation lock not held in the right mode while the transaction is open")
		} else {
			vsym.Assert(vsym.Held(&mgr.txLock) == 0, "isolation lock still held after the transaction finished")
		}
		batchesBefore := len(st.batches)
		switch vsym.IntRange("call", 0, 5) {
		case 0: // Get
			ki := vsym.IntRange("ki", 0, 1)
			got, gerr := tx.Get(K[ki])
			if finished {
				vsym.Assert(gerr == ErrTransactionClosed, "Get after finish must fail with the closed error")
			} else {
				switch st8[ki] {
				case 1:
					vsym.Assert(gerr == nil && vsym.EqBytes(got, val[ki]), "transaction does not read its own write")
				case 2:
					vsym.Assert(gerr != nil, "transaction reads a key it deleted")
				default:
					isPre := vsym.EqBytes(K[ki], st.preK)
					vsym.Assert((gerr == nil) == isPre, "transaction read of an untouched key differs from storage")
				}
			}
		case 1: // Put
			ki := vsym.IntRange("ki", 0, 1)
			v := vsym.Bytes("v", 1)
			perr := tx.Put(K[ki], v)
			switch {
			case finished:
				vsym.Assert(perr == ErrTransactionClosed, "Put after finish must fail with the closed error")
			case ro:
				vsym.Assert(perr == ErrReadOnlyTransaction, "a read-only transaction must refuse Put")
			default:
				vsym.Assert(perr == nil, "Put failed")
				st8[ki], val[ki] = 1, v
			}
		case 2: // Delete
			ki := vsym.IntRange("ki", 0, 1)
			derr := tx.Delete(K[ki])
			switch {
			case finished:
				vsym.Assert(derr == ErrTransactionClosed, "Delete after finish must fail with the closed error")
			case ro:
				vsym.Assert(derr == ErrReadOnlyTransaction, "a read-only transaction must refuse Delete")
			default:
				vsym.Assert(derr == nil, "Delete failed")
				st8[ki] = 2
			}
		case 3: // scan
			it := tx.NewIterator()
			cnt := 0
			for it.SeekToFirst(); it.Valid(); it.Next() {
				if !it.IsTombstone() {
					cnt++
				}
				vsym.Assert(cnt <= 2, "scan inside a transaction yields too many entries")
			}
			if finished {
				vsym.Assert(cnt == 0, "a scan on a finished transaction yields entries")
			}
		case 4: // Commit
			cerr := tx.Commit()
			if finished {
				vsym.Assert(cerr == ErrTransactionClosed, "second finish must fail with the closed error")
			} else {
				nops := 0
				for ki := 0; ki < 2; ki++ {
					if st8[ki] != 0 {
						nops++
					}
				}
				finished = true
				if st.failBatch && nops > 0 {
					// a commit that storage refuses fails, and the transaction is over all the same
					vsym.Assert(cerr != nil, "Commit reports success although storage refused the batch")
					vsym.Assert(st.refused == 1 && len(st.batches) == 0, "a refused commit reached storage more than once or left a batch")
					break
				}
				vsym.Assert(cerr == nil, "Commit failed")
				committed = true
				if nops == 0 {
					vsym.Assert(len(st.batches) == batchesBefore, "an empty or read-only commit reached storage")
				} else {
					vsym.Assert(len(st.batches) == batchesBefore+1, "commit must reach storage as exactly one batch")
					if len(st.batches) == batchesBefore+1 {
						b := st.batches[batchesBefore]
						vsym.Assert(len(b) == nops, "committed batch has a wrong number of operations (last operation per key wins)")
						for ki := 0; ki < 2; ki++ {
							for _, e := range b {
								if st8[ki] == 1 {
									vsym.Assert(vsym.Implies(vsym.EqBytes(e.Key, K[ki]), vsym.And(e.Type == wal.OpTypePut, vsym.EqBytes(e.Value, val[ki]))), "committed operation differs from the last operation on the key")
								} else if st8[ki] == 2 {
									vsym.Assert(vsym.Implies(vsym.EqBytes(e.Key, K[ki]), e.Type == wal.OpTypeDelete), "committed operation differs from the last operation on the key")
								} else {
									vsym.Assert(vsym.Not(vsym.EqBytes(e.Key, K[ki])), "commit writes a key the transaction never touched")
								}
							}
						}
					}
				}
			}
		case 5: // Rollback
			rerr := tx.Rollback()
			if finished {
				vsym.Assert(rerr == ErrTransactionClosed, "second finish must fail with the closed error")
			} else {
				vsym.Assert(rerr == nil, "Rollback failed")
				finished = true
			}
		}
		if !committed || len(st.batches) == batchesBefore {
			// no call other than the one successful commit may reach storage with a mutation
		}
		if !(finished && committed) {
			vsym.Assert(len(st.batches) == 0, "a write reached storage before commit / from a rolled-back or read-only transaction")
		}
		vsym.Assert(len(st.batches) <= 1, "more than one batch reached storage from one transaction")
	}
	vsym.Assert(st.unlocked == 0, "storage was accessed while the isolation lock was not held")
	if finished {
		vsym.Assert(vsym.Held(&mgr.txLock) == 0, "isolation lock still held after the transaction finished")
		vsym.Reach("finished")
	} else {
		vsym.Assert(vsym.Held(&mgr.txLock) == wantHeld, "isolation lock released before the transaction finished")
		vsym.Assert(tx.Rollback() == nil, "final rollback failed")
		vsym.Assert(vsym.Held(&mgr.txLock) == 0, "isolation lock still held after rollback")
	}
	vsym.Reach("done")
}
