//go:build verif

package filtered

import (
	"bytes"

	"github.com/KevoDB/kevo/pkg/zzverif/vsym"
)

type sliceIter struct {
	keys [][]byte
	pos  int
}

func (s *sliceIter) SeekToFirst() { s.pos = 0 }
func (s *sliceIter) SeekToLast()  { s.pos = len(s.keys) - 1 }
func (s *sliceIter) Seek(t []byte) bool {
	for s.pos = 0; s.pos < len(s.keys); s.pos++ {
		if bytes.Compare(s.keys[s.pos], t) >= 0 {
			return true
		}
	}
	return false
}
func (s *sliceIter) Next() bool {
	if s.pos < len(s.keys) {
		s.pos++
	}
	return s.Valid()
}
func (s *sliceIter) Valid() bool { return s.pos >= 0 && s.pos < len(s.keys) }
func (s *sliceIter) Key() []byte {
	if !s.Valid() {
		return nil
	}
	return s.keys[s.pos]
}
func (s *sliceIter) Value() []byte     { return s.Key() }
func (s *sliceIter) IsTombstone() bool { return false }

// VerifC05_FilteredExact: prefix / suffix filters over 2-byte keys yield exactly the matching keys, in order.
func VerifC05_FilteredExact() {
	n := vsym.IntRange("n", 0, 3)
	var ks [][]byte
	for i := 0; i < n; i++ {
		k := vsym.Bytes("k", 2)
		if i > 0 {
			vsym.Assume(bytes.Compare(ks[i-1], k) < 0)
		}
		ks = append(ks, k)
	}
	p := vsym.Bytes("p", 1)
	var it *FilteredIterator
	suffix := vsym.IntRange("suffix", 0, 1) == 1
	if suffix {
		it = NewSuffixIterator(&sliceIter{keys: ks}, p)
	} else {
		it = NewPrefixIterator(&sliceIter{keys: ks}, p)
	}
	var exp [][]byte
	for _, k := range ks {
		if (suffix && k[1] == p[0]) || (!suffix && k[0] == p[0]) {
			exp = append(exp, k)
		}
	}
	switch vsym.IntRange("mode", 0, 2) {
	case 0:
		i := 0
		for it.SeekToFirst(); it.Valid(); it.Next() {
			vsym.Assert(i < len(exp), "filtered scan yields too many keys")
			if i >= len(exp) {
				return
			}
			vsym.Assert(vsym.EqBytes(it.Key(), exp[i]), "filtered scan key differs")
			i++
		}
		vsym.Assert(i == len(exp), "filtered scan yields too few keys")
	case 1:
		t := vsym.Bytes("t", 2)
		ok := it.Seek(t)
		j := 0
		for j < len(exp) && bytes.Compare(exp[j], t) < 0 {
			j++
		}
		if j < len(exp) {
			vsym.Assert(ok && it.Valid(), "filtered Seek must find a key")
			if ok && it.Valid() {
				vsym.Assert(vsym.EqBytes(it.Key(), exp[j]), "filtered Seek landed on the wrong key")
			}
		} else {
			vsym.Assert(!ok, "filtered Seek with no match must report false")
		}
	case 2:
		it.SeekToLast()
		if len(exp) == 0 {
			vsym.Assert(!it.Valid(), "filtered SeekToLast with no match must be invalid")
		} else {
			vsym.Assert(it.Valid(), "filtered SeekToLast must find the greatest match")
			if it.Valid() {
				vsym.Assert(vsym.EqBytes(it.Key(), exp[len(exp)-1]), "filtered SeekToLast landed on the wrong key")
			}
		}
	}
	vsym.Reach("done")
}
