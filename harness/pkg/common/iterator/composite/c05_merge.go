//go:build verif

package composite

import (
	"bytes"

	"github.com/KevoDB/kevo/pkg/common/iterator"
	"github.com/KevoDB/kevo/pkg/zzverif/vsym"
)

// sliceIter is a trivially correct iterator over a sorted list (the harness' stub source).
type sliceIter struct {
	keys [][]byte
	vals [][]byte // nil = tombstone
	pos  int
}

func (s *sliceIter) SeekToFirst() { s.pos = 0 }
func (s *sliceIter) SeekToLast()  { s.pos = len(s.keys) - 1 }
func (s *sliceIter) Seek(t []byte) bool {
	for s.pos = 0; s.pos < len(s.keys); s.pos++ {
		if bytes.Compare(s.keys[s.pos], t) >= 0 {
			return true
		}
	}
	return false
}
func (s *sliceIter) Next() bool {
	if s.pos < len(s.keys) {
		s.pos++
	}
	return s.Valid()
}
func (s *sliceIter) Valid() bool { return s.pos >= 0 && s.pos < len(s.keys) }
func (s *sliceIter) Key() []byte {
	if !s.Valid() {
		return nil
	}
	return s.keys[s.pos]
}
func (s *sliceIter) Value() []byte {
	if !s.Valid() {
		return nil
	}
	return s.vals[s.pos]
}
func (s *sliceIter) IsTombstone() bool { return s.Valid() && s.vals[s.pos] == nil }

func mkSource(name string) *sliceIter {
	n := vsym.IntRange(name+"n", 0, 2)
	s := &sliceIter{}
	for i := 0; i < n; i++ {
		k := vsym.Bytes(name+"k", 1)
		if i > 0 {
			vsym.Assume(bytes.Compare(s.keys[i-1], k) < 0)
		}
		s.keys = append(s.keys, k)
		if vsym.IntRange(name+"t", 0, 1) == 1 {
			s.vals = append(s.vals, nil)
		} else {
			s.vals = append(s.vals, vsym.Bytes(name+"v", 1))
		}
	}
	return s
}

// VerifC05_MergeNewestWins: HierarchicalIterator over two sources = newest-wins merge, strictly ascending.
func VerifC05_MergeNewestWins() {
	a, b := mkSource("a"), mkSource("b") // a is newer
	h := NewHierarchicalIterator([]iterator.Iterator{a, b})
	// reference merge (concrete control flow: comparisons fork inside bytes.Compare)
	var ek, ev [][]byte
	i, j := 0, 0
	for i < len(a.keys) || j < len(b.keys) {
		switch {
		case j >= len(b.keys):
			ek, ev = append(ek, a.keys[i]), append(ev, a.vals[i])
			i++
		case i >= len(a.keys):
			ek, ev = append(ek, b.keys[j]), append(ev, b.vals[j])
			j++
		default:
			c := bytes.Compare(a.keys[i], b.keys[j])
			if c < 0 {
				ek, ev = append(ek, a.keys[i]), append(ev, a.vals[i])
				i++
			} else if c > 0 {
				ek, ev = append(ek, b.keys[j]), append(ev, b.vals[j])
				j++
			} else {
				ek, ev = append(ek, a.keys[i]), append(ev, a.vals[i])
				i++
				j++
			}
		}
	}
	mode := vsym.IntRange("mode", 0, 1)
	start := 0
	if mode == 0 {
		h.SeekToFirst()
	} else {
		t := vsym.Bytes("t", 1)
		ok := h.Seek(t)
		for start < len(ek) && bytes.Compare(ek[start], t) < 0 {
			start++
		}
		vsym.Assert(ok == (start < len(ek)), "Seek result flag wrong")
	}
	n := start
	for ; h.Valid(); h.Next() {
		vsym.Assert(n < len(ek), "merge yields too many entries")
		if n >= len(ek) {
			break
		}
		vsym.Assert(vsym.EqBytes(h.Key(), ek[n]), "merge key differs")
		vsym.Assert(h.IsTombstone() == (ev[n] == nil), "merge tombstone differs")
		if ev[n] != nil {
			vsym.Assert(vsym.EqBytes(h.Value(), ev[n]), "merge value differs (newest must win)")
		}
		n++
	}
	vsym.Assert(n == len(ek), "merge yields too few entries")
	vsym.Reach("done")
}
