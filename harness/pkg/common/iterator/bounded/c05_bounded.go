//go:build verif

package bounded

import (
	"bytes"

	"github.com/KevoDB/kevo/pkg/zzverif/vsym"
)

type sliceIter struct {
	keys [][]byte
	pos  int
}

func (s *sliceIter) SeekToFirst() { s.pos = 0 }
func (s *sliceIter) SeekToLast()  { s.pos = len(s.keys) - 1 }
func (s *sliceIter) Seek(t []byte) bool {
	for s.pos = 0; s.pos < len(s.keys); s.pos++ {
		if bytes.Compare(s.keys[s.pos], t) >= 0 {
			return true
		}
	}
	return false
}
func (s *sliceIter) Next() bool {
	if s.pos < len(s.keys) {
		s.pos++
	}
	return s.Valid()
}
func (s *sliceIter) Valid() bool { return s.pos >= 0 && s.pos < len(s.keys) }
func (s *sliceIter) Key() []byte {
	if !s.Valid() {
		return nil
	}
	return s.keys[s.pos]
}
func (s *sliceIter) Value() []byte     { return s.Key() }
func (s *sliceIter) IsTombstone() bool { return false }

func mkKeys(n int) [][]byte {
	var ks [][]byte
	for i := 0; i < n; i++ {
		k := vsym.Bytes("k", 1)
		if i > 0 {
			vsym.Assume(bytes.Compare(ks[i-1], k) < 0)
		}
		ks = append(ks, k)
	}
	return ks
}

func optBound(name string) []byte {
	if vsym.IntRange(name+"set", 0, 1) == 0 {
		return nil
	}
	return vsym.Bytes(name, 1)
}

func inRange(k, lo, hi []byte) bool {
	return (lo == nil || bytes.Compare(k, lo) >= 0) && (hi == nil || bytes.Compare(k, hi) < 0)
}

// VerifC05_BoundedExact: a bounded iterator yields exactly the keys in [start,end), in order;
// Seek(t) lands on the first such key >= t; SeekToLast on the greatest.
func VerifC05_BoundedExact() {
	ks := mkKeys(vsym.IntRange("n", 0, 3))
	lo, hi := optBound("lo"), optBound("hi")
	var exp [][]byte
	for _, k := range ks {
		if inRange(k, lo, hi) {
			exp = append(exp, k)
		}
	}
	b := NewBoundedIterator(&sliceIter{keys: ks}, lo, hi)
	switch vsym.IntRange("mode", 0, 2) {
	case 0:
		i := 0
		for b.SeekToFirst(); b.Valid(); b.Next() {
			vsym.Assert(i < len(exp), "bounded scan yields too many keys")
			if i >= len(exp) {
				return
			}
			vsym.Assert(vsym.EqBytes(b.Key(), exp[i]), "bounded scan key differs")
			i++
		}
		vsym.Assert(i == len(exp), "bounded scan yields too few keys")
	case 1:
		t := vsym.Bytes("t", 1)
		ok := b.Seek(t)
		j := 0
		for j < len(exp) && bytes.Compare(exp[j], t) < 0 {
			j++
		}
		if j < len(exp) {
			vsym.Assert(ok && b.Valid(), "bounded Seek must find a key")
			if ok && b.Valid() {
				vsym.Assert(vsym.EqBytes(b.Key(), exp[j]), "bounded Seek landed on the wrong key")
			}
		} else {
			vsym.Assert(!ok && !b.Valid(), "bounded Seek past the range must be invalid")
		}
	case 2:
		b.SeekToLast()
		if len(exp) == 0 {
			vsym.Assert(!b.Valid(), "SeekToLast on an empty range must be invalid")
		} else {
			vsym.Assert(b.Valid(), "SeekToLast must find the greatest key in range")
			if b.Valid() {
				vsym.Assert(vsym.EqBytes(b.Key(), exp[len(exp)-1]), "SeekToLast landed on the wrong key")
			}
		}
	}
	vsym.Reach("done")
}
