//go:build verif

package compaction

import (
	"sync"
	"time"

	"github.com/KevoDB/kevo/pkg/zzverif/vsym"
)

func VerifC07_TombstoneTracker() {
	t := NewTombstoneTracker(time.Hour)
	var wg sync.WaitGroup
	wg.Add(2)
	k1, k2 := vsym.Bytes("k1", 1), vsym.Bytes("k2", 1)
	go func() { defer wg.Done(); t.AddTombstone(k1) }()
	go func() { defer wg.Done(); _ = t.ShouldKeepTombstone(k2) }()
	wg.Wait()
	vsym.Reach("done")
}
