//go:build verif

package compaction

import (
	"bytes"
	"fmt"
	"os"
	"path/filepath"

	"github.com/KevoDB/kevo/pkg/config"
	"github.com/KevoDB/kevo/pkg/sstable"
	"github.com/KevoDB/kevo/pkg/zzverif/vsym"
)

type fileSpec struct {
	level int
	seq   int
	ts    int
	keys  [2]bool   // which universe keys it contains
	tomb  [2]bool   // tombstone?
	val   [2][]byte // value otherwise
}

// view: newest entry for key ki over the files; recency: lower level newer, within a level the later creation
// timestamp (then the higher file number) newer - file numbers alone are not reliable, they restarted at 1 on
// every open in databases written by earlier versions.
func newer(a, b fileSpec) bool {
	if a.level != b.level {
		return a.level < b.level
	}
	if a.ts != b.ts {
		return a.ts > b.ts
	}
	return a.seq > b.seq
}

// VerifC12_CompactPreservesView: build 2-3 SSTables over a 2-key universe (symbolic levels, symbolic
// tombstone placement), run one compaction cycle, and compare the merged view of the directory before/after.
func VerifC12_CompactPreservesView() {
	dir := filepath.Join(vsym.Dir(), "sst")
	os.MkdirAll(dir, 0755)
	K := [2][]byte{vsym.Bytes("K0", 1), vsym.Bytes("K1", 1)}
	vsym.Assume(K[0][0] < K[1][0])
	nf := vsym.IntRange("files", 2, 3)
	// file numbers follow creation order, or run against it: databases written before the engine kept its numbering
	// across restarts hold newer files with smaller numbers; the creation timestamp in the name tells the age
	restarted := vsym.IntRange("numbering", 0, 1) == 1
	// all values empty instead of one symbolic byte: with two files in the quick tier, with two or three in thorough
	emptyValues := (nf == 2 || vsym.Thorough()) && vsym.IntRange("emptyValues", 0, 1) == 1
	var files []fileSpec
	for f := 0; f < nf; f++ {
		fs := fileSpec{level: vsym.IntRange("level", 0, 1), seq: f + 1, ts: 1000 + f}
		if restarted {
			fs.ts = 2000 - f
		}
		w, err := sstable.NewWriter(filepath.Join(dir, fmt.Sprintf("%d_%06d_%020d.sst", fs.level, fs.seq, fs.ts)))
		vsym.Assert(err == nil, "NewWriter failed")
		any := false
		for ki := 0; ki < 2; ki++ {
			switch vsym.IntRange("has", 0, 2) {
			case 1:
				fs.keys[ki], fs.val[ki] = true, vsym.Bytes("v", 1)
				if emptyValues {
					fs.val[ki] = []byte{} // a live key whose value is empty: a value, not a deletion
				}
				vsym.Assert(w.Add(K[ki], fs.val[ki]) == nil, "Add failed")
				any = true
			case 2:
				fs.keys[ki], fs.tomb[ki] = true, true
				vsym.Assert(w.AddTombstone(K[ki]) == nil, "AddTombstone failed")
				any = true
			}
		}
		if !any {
			w.Abort()
			continue
		}
		vsym.Assert(w.Finish() == nil, "Finish failed")
		files = append(files, fs)
	}
	// level-1 files must not overlap each other (LSM invariant): keep at most one level-1 file per key
	for ki := 0; ki < 2; ki++ {
		cnt := 0
		for _, f := range files {
			if f.level == 1 && f.keys[ki] {
				cnt++
			}
		}
		vsym.Assume(cnt <= 1)
	}
	// expected view
	var live [2]bool
	var val [2][]byte
	for ki := 0; ki < 2; ki++ {
		best := -1
		for i, f := range files {
			if f.keys[ki] && (best < 0 || newer(f, files[best])) {
				best = i
			}
		}
		if best >= 0 && !files[best].tomb[ki] {
			live[ki], val[ki] = true, files[best].val[ki]
		}
	}
	cfg := config.NewDefaultConfig(vsym.Dir())
	cfg.MaxMemTables = 2 // L0 compaction trigger
	coord := NewCompactionCoordinator(cfg, dir, CompactionCoordinatorOptions{})
	vsym.Assert(coord.TriggerCompaction() == nil, "compaction cycle failed")
	// read the directory back with the same recency rule
	ents, err := os.ReadDir(dir)
	vsym.Assert(err == nil, "ReadDir failed")
	type found struct {
		level, seq int
		ts         int64
		tomb       bool
		val        []byte
	}
	var best [2]*found
	for _, e := range ents {
		var level, seq int
		var ts int64
		if n, _ := fmt.Sscanf(e.Name(), "%d_%06d_%020d.sst", &level, &seq, &ts); n != 3 {
			continue
		}
		r, err := sstable.OpenReader(filepath.Join(dir, e.Name()))
		vsym.Assert(err == nil, "OpenReader failed on a compaction output")
		it := r.NewIterator()
		var prev []byte
		for it.SeekToFirst(); it.Valid(); it.Next() {
			if prev != nil && bytes.Equal(prev, it.Key()) {
				continue // the iterator's own duplicate of a block's first entry is C11's subject
			}
			prev = append([]byte(nil), it.Key()...)
			for ki := 0; ki < 2; ki++ {
				if vsym.EqBytes(it.Key(), K[ki]) {
					f := &found{level: level, seq: seq, ts: ts, tomb: it.IsTombstone(), val: it.Value()}
					if best[ki] == nil || f.level < best[ki].level || (f.level == best[ki].level && (f.ts > best[ki].ts || (f.ts == best[ki].ts && f.seq > best[ki].seq))) {
						best[ki] = f
					}
				}
			}
		}
	}
	for qi := 0; qi < 2; qi++ {
		gotLive := best[qi] != nil && !best[qi].tomb
		vsym.Assert(gotLive == live[qi], "compaction changed whether a key is live (lost or resurrected)")
		if gotLive && live[qi] {
			vsym.Assert(vsym.EqBytes(best[qi].val, val[qi]), "compaction changed a key's value (older version won)")
		}
	}
	vsym.Reach("done")
}
