//go:build verif

package compaction

import (
	"bytes"
	"fmt"
	"os"
	"path/filepath"
	"time"

	"github.com/KevoDB/kevo/pkg/config"
	"github.com/KevoDB/kevo/pkg/sstable"
	"github.com/KevoDB/kevo/pkg/zzverif/vsym"
)

// c12DirView reads the newest-wins merged view of an SSTable directory for the two universe keys: lower level newer,
// within a level the later creation timestamp (then the higher file number) newer.
func c12DirView(dir string, K [2][]byte) (live [2]bool, val [2][]byte) {
	ents, err := os.ReadDir(dir)
	vsym.Assert(err == nil, "ReadDir failed")
	type found struct {
		level, seq int
		ts         int64
		tomb       bool
		val        []byte
	}
	var best [2]*found
	for _, e := range ents {
		var level, seq int
		var ts int64
		if n, _ := fmt.Sscanf(e.Name(), "%d_%06d_%020d.sst", &level, &seq, &ts); n != 3 {
			continue
		}
		r, err := sstable.OpenReader(filepath.Join(dir, e.Name()))
		vsym.Assert(err == nil, "OpenReader failed on a table of the directory")
		if err != nil {
			continue
		}
		it := r.NewIterator()
		var prev []byte
		for it.SeekToFirst(); it.Valid(); it.Next() {
			if prev != nil {
				vsym.Assert(bytes.Compare(prev, it.Key()) < 0, "a table of the directory is not sorted or holds a key twice")
			}
			prev = append([]byte(nil), it.Key()...)
			for ki := 0; ki < 2; ki++ {
				if vsym.EqBytes(it.Key(), K[ki]) {
					f := &found{level: level, seq: seq, ts: ts, tomb: it.IsTombstone(), val: append([]byte(nil), it.Value()...)}
					if best[ki] == nil || f.level < best[ki].level || (f.level == best[ki].level && (f.ts > best[ki].ts || (f.ts == best[ki].ts && f.seq > best[ki].seq))) {
						best[ki] = f
					}
				}
			}
		}
		r.Close()
	}
	for ki := 0; ki < 2; ki++ {
		if best[ki] != nil && !best[ki].tomb {
			live[ki], val[ki] = true, best[ki].val
		}
	}
	return
}

// VerifC12_CyclesPreserveView: one compaction coordinator lives through several cycles. Before each cycle two new
// level-0 tables are written (a put or a delete of one of two keys each); the cycle runs (level-0 trigger 2); the
// merged newest-wins view of the directory after the cycle equals the view before it, which equals the latest
// write of every key. Later cycles meet earlier outputs - same level, output file numbers restarting at 1 in every
// cycle - and whatever the coordinator and its strategy keep from one cycle to the next.
func VerifC12_CyclesPreserveView() {
	dir := filepath.Join(vsym.Dir(), "sst")
	os.MkdirAll(dir, 0755)
	K := [2][]byte{vsym.Bytes("K0", 1), vsym.Bytes("K1", 1)}
	vsym.Assume(K[0][0] < K[1][0])
	cfg := config.NewDefaultConfig(vsym.Dir())
	cfg.MaxMemTables = 2 // L0 compaction trigger
	coord := NewCompactionCoordinator(cfg, dir, CompactionCoordinatorOptions{})
	var present [2]bool
	var val [2][]byte
	fileNum := 0
	writeL0 := func(ki int, del bool) {
		fileNum++
		w, err := sstable.NewWriter(filepath.Join(dir, fmt.Sprintf("%d_%06d_%020d.sst", 0, fileNum, time.Now().UnixNano())))
		vsym.Assert(err == nil, "NewWriter failed")
		if del {
			vsym.Assert(w.AddTombstone(K[ki]) == nil, "AddTombstone failed")
			present[ki] = false
		} else {
			v := vsym.Bytes("v", 1)
			vsym.Assert(w.Add(K[ki], v) == nil, "Add failed")
			present[ki], val[ki] = true, v
		}
		vsym.Assert(w.Finish() == nil, "Finish failed")
	}
	R := 3
	if vsym.Thorough() {
		R = 4
	}
	for r := 0; r < R; r++ {
		switch vsym.IntRange("a", 0, 2) {
		case 0:
			writeL0(0, false)
		case 1:
			writeL0(0, true)
		case 2:
			writeL0(1, false)
		}
		switch vsym.IntRange("b", 0, 2) {
		case 0:
			writeL0(0, false)
		case 1:
			writeL0(1, false)
		case 2:
			writeL0(1, true)
		}
		bl, bv := c12DirView(dir, K)
		for ki := 0; ki < 2; ki++ {
			vsym.Assert(bl[ki] == present[ki] && (!bl[ki] || vsym.EqBytes(bv[ki], val[ki])), "the directory's view before a cycle is not the latest write of every key (an earlier cycle damaged it)")
		}
		vsym.Assert(coord.TriggerCompaction() == nil, "compaction cycle failed")
		al, av := c12DirView(dir, K)
		for ki := 0; ki < 2; ki++ {
			vsym.Assert(al[ki] == present[ki], "a compaction cycle changed whether a key is live (lost or resurrected)")
			if al[ki] && present[ki] {
				vsym.Assert(vsym.EqBytes(av[ki], val[ki]), "a compaction cycle changed a key's value (an older version won)")
			}
		}
	}
	vsym.Reach("done")
}
