//go:build verif

package wal

import (
	"os"
	"path/filepath"

	"github.com/KevoDB/kevo/pkg/config"
	"github.com/KevoDB/kevo/pkg/zzverif/vsym"
)

type appended struct {
	ty   uint8
	k, v []byte
	seq  uint64
	end  int // file offset just after this entry's last record
}

func writeLog(dir string, n int) ([]appended, string) {
	cfg := &config.Config{WALSyncMode: config.SyncImmediate}
	w, err := NewWAL(cfg, dir)
	vsym.Assert(err == nil, "NewWAL failed")
	var log []appended
	off := 0
	for i := 0; i < n; i++ {
		e := appended{ty: uint8(vsym.IntRange("ty", 1, 2)), k: vsym.Bytes("k", 1)}
		sz := HeaderSize + 1 + 8 + 4 + 1
		if e.ty == OpTypePut {
			e.v = vsym.Bytes("v", 1)
			sz += 4 + 1
		}
		s, err := w.Append(e.ty, e.k, e.v)
		vsym.Assert(err == nil, "Append failed")
		e.seq = s
		off += sz
		e.end = off
		log = append(log, e)
	}
	vsym.Assert(w.Close() == nil, "Close failed")
	files, _ := FindWALFiles(dir)
	vsym.Assert(len(files) == 1, "expected one log file")
	return log, files[0]
}

func sameEntry(g *Entry, a appended) bool {
	ok := g.Type == a.ty && g.SequenceNumber == a.seq
	ok = vsym.And(ok, vsym.EqBytes(g.Key, a.k))
	if a.ty == OpTypePut {
		ok = vsym.And(ok, vsym.EqBytes(g.Value, a.v))
	}
	return ok
}

// VerifC10_Truncate: cut the log at any byte; replay must succeed, deliver every entry that ends before the cut,
// deliver nothing that was not appended, in order.
func VerifC10_Truncate() {
	dir := filepath.Join(vsym.Dir(), "wal")
	n := vsym.IntRange("n", 1, 3)
	log, file := writeLog(dir, n)
	size := log[n-1].end
	cut := vsym.IntRange("cut", 0, size)
	data, err := os.ReadFile(file)
	vsym.Assert(err == nil && len(data) == size, "log size differs from the harness' bookkeeping")
	vsym.Assert(os.WriteFile(file, data[:cut], 0644) == nil, "rewrite failed")
	var got []*Entry
	_, err = ReplayWALDir(dir, func(e *Entry) error { got = append(got, e); return nil })
	vsym.Assert(err == nil, "replay of a truncated log reports a fatal error")
	complete := 0
	for complete < n && log[complete].end <= cut {
		complete++
	}
	vsym.Assert(len(got) >= complete, "a completely written entry before the cut was not recovered")
	vsym.Assert(len(got) <= n, "more entries delivered than appended")
	for i := 0; i < len(got) && i < n; i++ {
		vsym.Assert(sameEntry(got[i], log[i]), "delivered entry differs from the appended one")
	}
	vsym.Reach("done")
}

// VerifC10_FlipByte: replace one byte of the log by a different value.
func VerifC10_FlipByte() {
	dir := filepath.Join(vsym.Dir(), "wal")
	n := vsym.IntRange("n", 1, 2)
	log, file := writeLog(dir, n)
	size := log[n-1].end
	pos := vsym.IntRange("pos", 0, size-1)
	data, err := os.ReadFile(file)
	vsym.Assert(err == nil && len(data) == size, "log size differs from the harness' bookkeeping")
	nb := vsym.Byte("newbyte")
	vsym.Assume(nb != data[pos])
	data[pos] = nb
	vsym.Assert(os.WriteFile(file, data, 0644) == nil, "rewrite failed")
	var got []*Entry
	_, err = ReplayWALDir(dir, func(e *Entry) error { got = append(got, e); return nil })
	vsym.Assert(err == nil, "replay of a damaged log reports a fatal error")
	before := 0
	for before < n && log[before].end <= pos {
		before++
	}
	vsym.Assert(len(got) >= before, "an entry completely before the damaged byte was not recovered")
	// everything delivered must be an appended entry, in order, without duplicates
	j := 0
	for i := 0; i < len(got); i++ {
		for j < n && !sameEntryConcrete(got[i], log[j]) {
			j++
		}
		vsym.Assert(j < n, "delivered an entry that was never appended (or out of order / duplicated)")
		if j >= n {
			return
		}
		j++
	}
	vsym.Reach("done")
}

func sameEntryConcrete(g *Entry, a appended) bool {
	if sameEntry(g, a) {
		return true
	}
	return false
}
