//go:build verif

package wal

import (
	"github.com/KevoDB/kevo/pkg/config"
	"github.com/KevoDB/kevo/pkg/zzverif/vsym"
)

// sparse returns n bytes that are concrete (a position-dependent pattern) except for symbolic probes at the
// first, the last and up to four interior positions, so that a dropped, duplicated or shifted chunk is visible.
func sparse(name string, n int, probes ...int) []byte {
	b := make([]byte, n)
	for i := range b {
		b[i] = byte(i*7 + i>>8)
	}
	set := func(i int) {
		if i >= 0 && i < n {
			b[i] = vsym.Byte(name)
		}
	}
	set(0)
	set(n - 1)
	for _, p := range probes {
		set(p)
	}
	return b
}

// VerifC09_FragmentBoundaries: one put whose encoded size sits within +-1 byte of every boundary the fragmenting
// writer computes with - the spill-over after the first fragment being exactly one or two full records, the key
// filling the first fragment exactly - followed by a small put; close; replay yields both, unaltered, in order.
func VerifC09_FragmentBoundaries() {
	dir := vsym.Dir() + "/wal"
	cfg := &config.Config{WALSyncMode: config.SyncImmediate}
	w, err := NewWAL(cfg, dir)
	vsym.Assert(err == nil, "NewWAL failed")
	var k, v []byte
	d := vsym.IntRange("d", -1, 1)
	switch vsym.IntRange("shape", 0, 3) {
	case 0: // spill-over (4-byte value length + value) = one full record +- 1
		k = vsym.Bytes("k", 1)
		v = sparse("v", MaxRecordSize-4+d, MaxRecordSize-5, MaxRecordSize-4)
	case 1: // two full records +- 1
		k = vsym.Bytes("k", 1)
		v = sparse("v", 2*MaxRecordSize-4+d, MaxRecordSize-5, MaxRecordSize-4, 2*MaxRecordSize-5)
	case 2: // key fills the first fragment exactly +- 1 (first fragment holds 13 bytes of metadata)
		k = sparse("k", MaxRecordSize-13+d, MaxRecordSize-14)
		v = vsym.Bytes("v", 1)
	case 3: // key spills over by a full record +- 1
		k = sparse("k", 2*MaxRecordSize-13-5+d, MaxRecordSize-13, MaxRecordSize-12)
		v = vsym.Bytes("v", 1)
	}
	s1, err := w.Append(OpTypePut, k, v)
	vsym.Assert(err == nil, "Append of the large entry failed")
	k2, v2 := vsym.Bytes("k2", 1), vsym.Bytes("v2", 1)
	s2, err := w.Append(OpTypePut, k2, v2)
	vsym.Assert(err == nil, "Append of the small entry failed")
	// a second fragmented entry in the same file, not larger than the first (whatever the reader keeps from entry
	// to entry - buffers, fragments - meets an entry of the same kind again); the consumer keeps every entry it
	// is handed and looks at them afterwards
	k3, v3 := vsym.Bytes("k3", 1), sparse("v3", MaxRecordSize+10, 0, MaxRecordSize-5, MaxRecordSize+9)
	s3, err := w.Append(OpTypePut, k3, v3)
	vsym.Assert(err == nil, "Append of the second large entry failed")
	vsym.Assert(w.Close() == nil, "Close failed")
	var got []*Entry
	_, err = ReplayWALDir(dir, func(e *Entry) error { got = append(got, e); return nil })
	vsym.Assert(err == nil, "replay failed")
	vsym.Assert(len(got) == 3, "replay does not yield exactly the three appended operations")
	if len(got) == 3 {
		vsym.Assert(got[2].SequenceNumber == s3 && s3 > s2, "second large entry: sequence number differs")
		vsym.Assert(vsym.EqBytes(got[2].Key, k3) && len(got[2].Value) == len(v3) && vsym.EqBytes(got[2].Value, v3), "second large entry differs")
		vsym.Assert(got[0].SequenceNumber == s1 && got[1].SequenceNumber == s2, "sequence numbers differ or order changed")
		vsym.Assert(len(got[0].Key) == len(k) && vsym.EqBytes(got[0].Key, k), "large entry: key differs")
		vsym.Assert(len(got[0].Value) == len(v) && vsym.EqBytes(got[0].Value, v), "large entry: value differs")
		vsym.Assert(vsym.EqBytes(got[1].Key, k2) && vsym.EqBytes(got[1].Value, v2), "small entry after the large one differs")
	}
	vsym.Reach("done")
}

// VerifC09_BatchBeyondBuffer: 0-2 small appends still sitting in the 64 KiB log buffer (no sync in between),
// then a batch whose encoded size is below / above the buffer size, then one more append; after close the replay
// yields every appended operation in order.
func VerifC09_BatchBeyondBuffer() {
	dir := vsym.Dir() + "/wal"
	cfg := &config.Config{WALSyncMode: config.SyncMode(vsym.IntRange("sync", 0, 2)), WALSyncBytes: 1 << 30}
	w, err := NewWAL(cfg, dir)
	vsym.Assert(err == nil, "NewWAL failed")
	var want []c09Rec
	pre := vsym.IntRange("pre", 0, 2)
	for i := 0; i < pre; i++ {
		r := c09Rec{ty: OpTypePut, k: vsym.Bytes("k", 1), v: vsym.Bytes("v", 1)}
		s, err := w.Append(r.ty, r.k, r.v)
		vsym.Assert(err == nil, "Append failed")
		r.seq = s
		want = append(want, r)
	}
	m := vsym.IntRange("batch", 2, 3) // 2 x 30 KiB fits the buffer, 3 x 30 KiB does not
	var batch []*Entry
	for i := 0; i < m; i++ {
		r := c09Rec{ty: OpTypePut, k: vsym.Bytes("bk", 1), v: sparse("bv", 30*1024)}
		batch = append(batch, &Entry{Type: r.ty, Key: r.k, Value: r.v})
		want = append(want, r)
	}
	bs, err := w.AppendBatch(batch)
	vsym.Assert(err == nil, "AppendBatch failed")
	for i := len(want) - m; i < len(want); i++ {
		want[i].seq = bs
	}
	r := c09Rec{ty: OpTypeDelete, k: vsym.Bytes("k", 1)}
	s, err := w.Append(r.ty, r.k, nil)
	vsym.Assert(err == nil, "Append after the batch failed")
	r.seq = s
	want = append(want, r)
	vsym.Assert(w.Close() == nil, "Close failed")
	var rep []*Entry
	_, err = ReplayWALDir(dir, func(e *Entry) error { rep = append(rep, e); return nil })
	vsym.Assert(err == nil, "replay failed")
	c09Check(rep, want, "replay")
	vsym.Reach("done")
}
