//go:build verif

package wal

import (
	"github.com/KevoDB/kevo/pkg/config"
	"github.com/KevoDB/kevo/pkg/zzverif/vsym"
)

// VerifC09_RoundTripSmall: append up to 2 entries (put/delete), close, replay: same entries in order.
func VerifC09_RoundTripSmall() {
	cfg := &config.Config{WALSyncMode: config.SyncMode(vsym.IntRange("sync", 0, 2)), WALSyncBytes: 1024}
	w, err := NewWAL(cfg, vsym.Dir()+"/wal")
	vsym.Assert(err == nil, "NewWAL failed")
	n := vsym.IntRange("n", 1, 2)
	var ks, vs [2][]byte
	var ty [2]uint8
	var seqs [2]uint64
	for i := 0; i < n; i++ {
		ks[i] = vsym.Bytes("k", vsym.IntRange("kl", 0, 2))
		ty[i] = uint8(vsym.IntRange("ty", 1, 2))
		if ty[i] == OpTypePut {
			vs[i] = vsym.Bytes("v", vsym.IntRange("vl", 0, 2))
		}
		s, err := w.Append(ty[i], ks[i], vs[i])
		vsym.Assert(err == nil, "Append failed")
		seqs[i] = s
	}
	vsym.Assert(w.Close() == nil, "Close failed")
	var got []*Entry
	_, err = ReplayWALDir(vsym.Dir()+"/wal", func(e *Entry) error {
		got = append(got, e)
		return nil
	})
	vsym.Assert(err == nil, "replay failed")
	vsym.Assert(len(got) == n, "wrong number of entries replayed")
	for i := 0; i < n && i < len(got); i++ {
		vsym.Assert(got[i].Type == ty[i], "type differs")
		vsym.Assert(got[i].SequenceNumber == seqs[i], "seq differs")
		vsym.Assert(vsym.EqBytes(got[i].Key, ks[i]), "key differs")
		if ty[i] == OpTypePut {
			vsym.Assert(vsym.EqBytes(got[i].Value, vs[i]), "value differs")
		}
	}
	vsym.Reach("done")
}
