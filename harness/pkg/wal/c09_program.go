//go:build verif

package wal

import (
	"github.com/KevoDB/kevo/pkg/config"
	"github.com/KevoDB/kevo/pkg/zzverif/vsym"
)

type c09Rec struct {
	ty   uint8
	k, v []byte
	seq  uint64
}

func c09Check(got []*Entry, want []c09Rec, what string) {
	vsym.Assert(len(got) == len(want), what+": wrong number of operations")
	for i := 0; i < len(got) && i < len(want); i++ {
		vsym.Assert(got[i].Type == want[i].ty, what+": type differs")
		vsym.Assert(got[i].SequenceNumber == want[i].seq, what+": sequence number differs")
		vsym.Assert(vsym.EqBytes(got[i].Key, want[i].k), what+": key differs")
		if want[i].ty != OpTypeDelete {
			vsym.Assert(vsym.EqBytes(got[i].Value, want[i].v), what+": value differs")
		}
	}
}

// VerifC09_Program: a program of single appends (put/delete/merge), two-entry batches, close+reuse of the newest
// file and rotation to a new file; then (a) reading from a symbolic sequence number through the open log and
// (b) replaying the directory after close yield exactly the appended operations, in order.
func VerifC09_Program() {
	dir := vsym.Dir() + "/wal"
	cfg := &config.Config{WALSyncMode: config.SyncMode(vsym.IntRange("sync", 0, 2)), WALSyncBytes: 64}
	w, err := NewWAL(cfg, dir)
	vsym.Assert(err == nil, "NewWAL failed")
	var want []c09Rec
	N := 3
	if vsym.Thorough() {
		N = 4
	}
	n := vsym.IntRange("n", 1, N)
	for i := 0; i < n; i++ {
		switch vsym.IntRange("op", 0, 3) {
		case 0: // single append
			r := c09Rec{ty: uint8(vsym.IntRange("ty", 1, 3)), k: vsym.Bytes("k", 1)}
			if r.ty != OpTypeDelete {
				r.v = vsym.Bytes("v", vsym.IntRange("vl", 0, 1))
			}
			s, err := w.Append(r.ty, r.k, r.v)
			vsym.Assert(err == nil, "Append failed")
			r.seq = s
			want = append(want, r)
		case 1: // batch of two (they share one sequence number by design)
			a := c09Rec{ty: OpTypePut, k: vsym.Bytes("k", 1), v: vsym.Bytes("v", 1)}
			b := c09Rec{ty: OpTypeDelete, k: vsym.Bytes("k", 1)}
			s, err := w.AppendBatch([]*Entry{{Type: a.ty, Key: a.k, Value: a.v}, {Type: b.ty, Key: b.k}})
			vsym.Assert(err == nil, "AppendBatch failed")
			a.seq, b.seq = s, s
			want = append(want, a, b)
		case 2: // close and reopen the newest file for appending
			next := w.GetNextSequence()
			vsym.Assert(w.Close() == nil, "Close failed")
			w2, err := ReuseWAL(cfg, dir, next)
			vsym.Assert(err == nil && w2 != nil, "ReuseWAL failed")
			w = w2
		case 3: // rotate: a new file continues the numbering
			next := w.GetNextSequence()
			vsym.Assert(w.Close() == nil, "Close failed")
			w2, err := NewWAL(cfg, dir)
			vsym.Assert(err == nil, "NewWAL (rotation) failed")
			w2.UpdateNextSequence(next)
			w = w2
		}
	}
	// (a) read from a symbolic sequence number
	from := vsym.Uint64("from")
	got, err := w.GetEntriesFrom(from)
	vsym.Assert(err == nil, "GetEntriesFrom failed")
	j := 0
	for _, r := range want {
		// every stored operation at or after `from`, and nothing else, in order
		if r.seq >= from {
			vsym.Assert(j < len(got), "GetEntriesFrom misses a stored operation at or after the start sequence")
			vsym.Assert(got[j].SequenceNumber == r.seq && got[j].Type == r.ty && vsym.EqBytes(got[j].Key, r.k), "GetEntriesFrom yields a different operation")
			j++
		}
	}
	vsym.Assert(j == len(got), "GetEntriesFrom yields operations below the start sequence or not stored")
	// (b) replay after close
	vsym.Assert(w.Close() == nil, "final Close failed")
	var rep []*Entry
	_, err = ReplayWALDir(dir, func(e *Entry) error { rep = append(rep, e); return nil })
	vsym.Assert(err == nil, "replay failed")
	c09Check(rep, want, "replay")
	vsym.Reach("done")
}
