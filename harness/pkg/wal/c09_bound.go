//go:build verif

package wal

import (
	"github.com/KevoDB/kevo/pkg/config"
	"github.com/KevoDB/kevo/pkg/zzverif/vsym"
)

// VerifC09_RoundTripBoundaries: one put whose value length sits around the fragmentation boundary.
func VerifC09_RoundTripBoundaries() {
	cfg := &config.Config{WALSyncMode: config.SyncImmediate}
	w, err := NewWAL(cfg, vsym.Dir()+"/wal")
	vsym.Assert(err == nil, "NewWAL failed")
	kl := vsym.IntRange("kl", 1, 2)
	// payload = 1+8+4+kl+4+vl ; boundary at MaxRecordSize
	base := MaxRecordSize - 17 - kl
	vl := base + vsym.IntRange("dv", -2, 2)
	k := vsym.Bytes("k", kl)
	v := vsym.Bytes("v", vl)
	seq, err := w.Append(OpTypePut, k, v)
	vsym.Assert(err == nil, "Append failed")
	k2, v2 := vsym.Bytes("k2", 1), vsym.Bytes("v2", 1)
	seq2, err := w.Append(OpTypePut, k2, v2)
	vsym.Assert(err == nil, "Append 2 failed")
	vsym.Assert(w.Close() == nil, "Close failed")
	var got []*Entry
	_, err = ReplayWALDir(vsym.Dir()+"/wal", func(e *Entry) error { got = append(got, e); return nil })
	vsym.Assert(err == nil, "replay failed")
	vsym.Assert(len(got) == 2, "wrong number of entries")
	if len(got) == 2 {
		vsym.Assert(got[0].SequenceNumber == seq && got[1].SequenceNumber == seq2, "seq differs")
		vsym.Assert(vsym.EqBytes(got[0].Key, k), "key differs")
		vsym.Assert(vsym.EqBytes(got[0].Value, v), "value differs")
		vsym.Assert(vsym.EqBytes(got[1].Key, k2) && vsym.EqBytes(got[1].Value, v2), "second entry differs")
	}
	vsym.Reach("done")
}
