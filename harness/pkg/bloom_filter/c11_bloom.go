//go:build verif

package bloomfilter

import (
	"os"

	"github.com/KevoDB/kevo/pkg/zzverif/vsym"
)

// VerifC11_BloomNoFalseNegative: real Add/Contains/SaveToFile/LoadBloomFilter on a small filter (20 bits, 7 hash
// functions; the hash itself is an uninterpreted function below size): every added key is reported as possibly present,
// also after a save/load round trip.
func VerifC11_BloomNoFalseNegative() {
	bf := NewBloomFilter(0.01, 2)
	n := vsym.IntRange("n", 1, 2)
	var ks [][]byte
	for i := 0; i < n; i++ {
		k := vsym.Bytes("k", 1)
		bf.Add(k)
		ks = append(ks, k)
	}
	qi := vsym.IntRange("qi", 0, n-1)
	vsym.Assert(bf.Contains(ks[qi]), "false negative in memory")
	os.MkdirAll(vsym.Dir(), 0755)
	path := vsym.Dir() + "/bf.bin"
	vsym.Assert(bf.SaveToFile(path) == nil, "save failed")
	bf2, err := LoadBloomFilter(path)
	vsym.Assert(err == nil, "load failed")
	if err == nil {
		vsym.Assert(bf2.Contains(ks[qi]), "false negative after save/load")
	}
	vsym.Reach("done")
}
