//go:build verif

package service

import (
	"context"

	"github.com/KevoDB/kevo/pkg/engine"
	"github.com/KevoDB/kevo/pkg/transaction"
	"github.com/KevoDB/kevo/pkg/zzverif/vsym"
	pb "github.com/KevoDB/kevo/proto/kevo"
)

// VerifC19_PutGetDelete: a put / get / delete through the service handlers behaves like the embedded call on
// the same engine (an empty value is a value); requests with an out-of-limit key are rejected without effect.
func VerifC19_PutGetDelete() {
	e, err := engine.NewEngineFacade(vsym.Dir())
	vsym.Assert(err == nil, "open failed")
	s := NewKevoServiceServer(e, transaction.NewRegistry(), nil)
	ctx := context.Background()
	k := vsym.Bytes("k", 1)
	var v []byte
	if vl := vsym.IntRange("vl", 0, 1); vl > 0 {
		v = vsym.Bytes("v", vl)
	} // vl == 0: an empty bytes field arrives as nil
	pr, perr := s.Put(ctx, &pb.PutRequest{Key: k, Value: v})
	vsym.Assert(perr == nil && pr.Success, "service Put failed")
	got, gerr := e.Get(k)
	vsym.Assert(gerr == nil, "a key put through the service is not found by the embedded Get")
	if gerr == nil {
		vsym.Assert(vsym.EqBytes(got, v) || (len(got) == 0 && len(v) == 0), "embedded Get returns a different value")
	}
	gr, err := s.Get(ctx, &pb.GetRequest{Key: k})
	vsym.Assert(err == nil && gr.Found, "service Get does not find the key")
	if err == nil && gr.Found {
		vsym.Assert(len(gr.Value) == len(v) && (len(v) == 0 || gr.Value[0] == v[0]), "service Get returns a different value")
	}
	// out-of-limit key: rejected, nothing changes
	bad := []byte{}
	if vsym.IntRange("badkind", 0, 1) == 1 {
		bad = make([]byte, 4097)
	}
	_, err = s.Put(ctx, &pb.PutRequest{Key: bad, Value: []byte{1}})
	vsym.Assert(err != nil, "Put with an out-of-limit key accepted")
	_, err = s.Delete(ctx, &pb.DeleteRequest{Key: bad})
	vsym.Assert(err != nil, "Delete with an out-of-limit key accepted")
	_, err = s.Get(ctx, &pb.GetRequest{Key: bad})
	vsym.Assert(err != nil, "Get with an out-of-limit key accepted")
	dr, derr := s.Delete(ctx, &pb.DeleteRequest{Key: k})
	vsym.Assert(derr == nil && dr.Success, "service Delete failed")
	_, gerr = e.Get(k)
	vsym.Assert(gerr != nil, "a key deleted through the service is still found")
	vsym.Reach("done")
}

// VerifC19_TxHandles: transactions addressed by handle: own writes visible, nothing visible outside before commit,
// commit applies, the handle is unusable afterwards; an out-of-limit TxGet is rejected and leaves the handle usable.
func VerifC19_TxHandles() {
	e, err := engine.NewEngineFacade(vsym.Dir())
	vsym.Assert(err == nil, "open failed")
	s := NewKevoServiceServer(e, transaction.NewRegistry(), nil)
	ctx := context.Background()
	k, v := vsym.Bytes("k", 1), vsym.Bytes("v", 1)
	br, err := s.BeginTransaction(ctx, &pb.BeginTransactionRequest{ReadOnly: false})
	if err != nil {
		return // the begin deadline may fire at any time; that outcome is C17's subject
	}
	id := br.TransactionId
	_, err = s.TxPut(ctx, &pb.TxPutRequest{TransactionId: id, Key: k, Value: v})
	vsym.Assert(err == nil, "TxPut failed")
	tg, err := s.TxGet(ctx, &pb.TxGetRequest{TransactionId: id, Key: k})
	vsym.Assert(err == nil && tg.Found && vsym.EqBytes(tg.Value, v), "TxGet does not see the transaction's own write")
	_, gerr := e.Get(k)
	vsym.Assert(gerr != nil, "uncommitted write visible outside the transaction")
	if vsym.IntRange("badget", 0, 1) == 1 {
		_, err = s.TxGet(ctx, &pb.TxGetRequest{TransactionId: id, Key: nil})
		vsym.Assert(err != nil, "TxGet with an empty key accepted")
	}
	if vsym.IntRange("commit", 0, 1) == 1 {
		cr, err := s.CommitTransaction(ctx, &pb.CommitTransactionRequest{TransactionId: id})
		vsym.Assert(err == nil && cr.Success, "commit failed (a rejected request must leave the handle usable)")
		got, gerr := e.Get(k)
		vsym.Assert(gerr == nil && vsym.EqBytes(got, v), "committed write not visible")
	} else {
		rr, err := s.RollbackTransaction(ctx, &pb.RollbackTransactionRequest{TransactionId: id})
		vsym.Assert(err == nil && rr.Success, "rollback failed (a rejected request must leave the handle usable)")
		_, gerr := e.Get(k)
		vsym.Assert(gerr != nil, "rolled-back write visible")
	}
	_, err = s.TxPut(ctx, &pb.TxPutRequest{TransactionId: id, Key: k, Value: v})
	vsym.Assert(err != nil, "handle usable after finish")
	// the database is released
	vsym.Assert(vsym.Held(e.GetTransactionManager().GetRWLock()) == 0, "database lock still held after the transaction finished")
	vsym.Reach("done")
}
