//go:build verif

package service

import (
	"context"

	"github.com/KevoDB/kevo/pkg/engine"
	"github.com/KevoDB/kevo/pkg/transaction"
	"github.com/KevoDB/kevo/pkg/zzverif/vsym"
	pb "github.com/KevoDB/kevo/proto/kevo"
	"google.golang.org/grpc"
)

// scanSink records what a Scan / TxScan handler streams.
type scanSink struct {
	grpc.ServerStream
	keys, vals [][]byte
}

func (s *scanSink) Send(r *pb.ScanResponse) error {
	s.keys, s.vals = append(s.keys, append([]byte(nil), r.Key...)), append(s.vals, append([]byte(nil), r.Value...))
	return nil
}
func (s *scanSink) Context() context.Context { return context.Background() }

type txScanSink struct {
	grpc.ServerStream
	keys, vals [][]byte
}

func (s *txScanSink) Send(r *pb.TxScanResponse) error {
	s.keys, s.vals = append(s.keys, append([]byte(nil), r.Key...)), append(s.vals, append([]byte(nil), r.Value...))
	return nil
}
func (s *txScanSink) Context() context.Context { return context.Background() }

func c19HasPrefix(k, p []byte) bool {
	if len(p) > len(k) {
		return false
	}
	return vsym.EqBytes(k[:len(p)], p)
}
func c19HasSuffix(k, p []byte) bool {
	if len(p) > len(k) {
		return false
	}
	return vsym.EqBytes(k[len(k)-len(p):], p)
}

// VerifC19_ScanOptions: three two-byte keys [P,a] < [P,b] < [Q,c] (symbolic bytes; one of them deleted again), some
// in SSTables and some in the memtable; a Scan (or a TxScan inside a transaction that has put/deleted one more key)
// with a symbolic one-byte prefix, a one-byte suffix, a start/end range or nothing, and limit 0..2. The streamed
// result equals the embedded view restricted by the documented filter: exactly the live keys, in ascending order,
// with their latest values, cut at the limit.
func VerifC19_ScanOptions() {
	e, err := engine.NewEngineFacade(vsym.Dir())
	vsym.Assert(err == nil, "open failed")
	s := NewKevoServiceServer(e, transaction.NewRegistry(), nil)
	P, Q := vsym.Byte("P"), vsym.Byte("Q")
	vsym.Assume(P < Q)
	a, b, c := vsym.Byte("a"), vsym.Byte("b"), vsym.Byte("c")
	vsym.Assume(a < b)
	keys := [][]byte{{P, a}, {P, b}, {Q, c}}
	live := []bool{true, true, true}
	vals := [][]byte{vsym.Bytes("v", 1), vsym.Bytes("v", 1), vsym.Bytes("v", 1)}
	for i := range keys {
		vsym.Assert(e.Put(keys[i], vals[i]) == nil, "Put failed")
		if i == 1 {
			vsym.Assert(e.FlushImMemTables() == nil, "Flush failed")
		}
	}
	if d := vsym.IntRange("deleted", 0, 3); d < 3 {
		vsym.Assert(e.Delete(keys[d]) == nil, "Delete failed")
		live[d] = false
	}
	var prefix, suffix, start, end []byte
	switch vsym.IntRange("filter", 0, 4) {
	case 1:
		prefix = vsym.Bytes("prefix", 1)
	case 2:
		suffix = vsym.Bytes("suffix", 1)
	case 3:
		start, end = vsym.Bytes("start", 1), vsym.Bytes("end", 1)
	case 4:
		prefix, suffix = vsym.Bytes("prefix", 1), vsym.Bytes("suffix", 1)
	}
	limit := vsym.IntRange("limit", 0, 2)
	var gotK, gotV [][]byte
	if vsym.IntRange("viaTx", 0, 1) == 0 {
		sink := &scanSink{}
		vsym.Assert(s.Scan(&pb.ScanRequest{Prefix: prefix, Suffix: suffix, StartKey: start, EndKey: end, Limit: int32(limit)}, sink) == nil, "Scan failed")
		gotK, gotV = sink.keys, sink.vals
	} else {
		br, err := s.BeginTransaction(context.Background(), &pb.BeginTransactionRequest{ReadOnly: true})
		if err != nil {
			return // begin deadline: C17's subject
		}
		sink := &txScanSink{}
		vsym.Assert(s.TxScan(&pb.TxScanRequest{TransactionId: br.TransactionId, Prefix: prefix, Suffix: suffix, StartKey: start, EndKey: end, Limit: int32(limit)}, sink) == nil, "TxScan failed")
		gotK, gotV = sink.keys, sink.vals
		s.RollbackTransaction(context.Background(), &pb.RollbackTransactionRequest{TransactionId: br.TransactionId})
	}
	// reference: walk the keys in order, apply the documented filter, cut at the limit
	j := 0
	for i := range keys {
		if limit > 0 && j >= limit {
			break
		}
		in := live[i]
		if len(prefix) > 0 {
			in = vsym.And(in, c19HasPrefix(keys[i], prefix))
		}
		if len(suffix) > 0 {
			in = vsym.And(in, c19HasSuffix(keys[i], suffix))
		}
		if len(prefix) == 0 && len(suffix) == 0 && (len(start) > 0 || len(end) > 0) {
			in = vsym.And(in, vsym.And(vsym.Not(vsym.LessBytes(keys[i], start)), vsym.LessBytes(keys[i], end)))
		}
		if in { // forks: the filter outcome per key is part of the explored space
			vsym.Assert(j < len(gotK), "a scan over the service misses a live key of the requested set")
			if j < len(gotK) {
				vsym.Assert(vsym.EqBytes(gotK[j], keys[i]), "a scan over the service yields a different key than the embedded view (missing, extra, out of order)")
				vsym.Assert(vsym.EqBytes(gotV[j], vals[i]), "a scan over the service yields a different value than the embedded view")
			}
			j++
		}
	}
	vsym.Assert(len(gotK) == j, "a scan over the service yields more entries than the requested set holds (deleted, filtered-out or beyond the limit)")
	vsym.Reach("done")
}

// VerifC19_BatchWriteLimits: a batch of 1-2 operations of which one may violate a documented limit (empty key, key of
// 4097 bytes, unknown operation type, a value above the value limit; a batch of 1001 operations) or be valid. A valid batch has the effect of the
// same embedded batch; a rejected one returns an error, changes nothing, and leaves the database usable: a scan and
// a further write through the service still complete.
func VerifC19_BatchWriteLimits() {
	e, err := engine.NewEngineFacade(vsym.Dir())
	vsym.Assert(err == nil, "open failed")
	s := NewKevoServiceServer(e, transaction.NewRegistry(), nil)
	ctx := context.Background()
	k0, k1 := vsym.Bytes("k0", 1), vsym.Bytes("k1", 1)
	vsym.Assume(vsym.LessBytes(k0, k1))
	v0, v1 := vsym.Bytes("v0", 1), vsym.Bytes("v1", 1)
	ops := []*pb.Operation{{Type: pb.Operation_PUT, Key: k0, Value: v0}, {Type: pb.Operation_PUT, Key: k1, Value: v1}}
	bad := vsym.IntRange("bad", 0, 5)
	at := vsym.IntRange("at", 0, 1)
	switch bad {
	case 1:
		ops[at].Key = nil
	case 2:
		ops[at].Key = make([]byte, 4097)
	case 3:
		ops[at].Type = pb.Operation_Type(7)
	case 5:
		// a value above the server's value limit (the limit is a field of the server: scaled down from 10 MiB to
		// 8 bytes here, the comparison executed is the same)
		s.maxValueSize = 8
		ops[at].Value = make([]byte, 9)
	case 4:
		for len(ops) < 1001 {
			ops = append(ops, &pb.Operation{Type: pb.Operation_DELETE, Key: []byte{1}})
		}
	}
	resp, berr := s.BatchWrite(ctx, &pb.BatchWriteRequest{Operations: ops})
	vsym.Observe("batcherr", berr)
	_, e0 := e.Get(k0)
	_, e1 := e.Get(k1)
	if bad == 0 {
		vsym.Assert(berr == nil && resp.Success, "a valid batch was refused")
		vsym.Assert(e0 == nil && e1 == nil, "a valid batch did not take effect completely")
	} else {
		vsym.Assert(berr != nil, "a batch outside the documented limits was accepted")
		vsym.Assert(e0 != nil && e1 != nil, "a rejected batch had an effect")
	}
	// the database stays usable: the lock a rejected request may have taken is released
	vsym.Assert(vsym.Held(e.GetTransactionManager().GetRWLock()) == 0, "a request left the database lock held")
	pr, perr := s.Put(ctx, &pb.PutRequest{Key: k1, Value: v0})
	vsym.Assert(perr == nil && pr.Success, "Put after the batch failed")
	sink := &scanSink{}
	vsym.Assert(s.Scan(&pb.ScanRequest{}, sink) == nil, "Scan after the batch failed")
	vsym.Reach("done")
}
