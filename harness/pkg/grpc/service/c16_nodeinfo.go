//go:build verif

package service

import (
	"context"

	"github.com/KevoDB/kevo/pkg/engine"
	"github.com/KevoDB/kevo/pkg/replication"
	"github.com/KevoDB/kevo/pkg/transaction"
	"github.com/KevoDB/kevo/pkg/zzverif/vsym"
	pb "github.com/KevoDB/kevo/proto/kevo"
)

// VerifC16_NodeInfoTruthful: the node-information call, through the real replication manager and the service
// handler, reports the configured role, the primary's address and the engine's actual read-only status - for every
// role and both flag values, also after the flag changes, and a node without replication reports standalone.
func VerifC16_NodeInfoTruthful() {
	e, err := engine.NewEngineFacade(vsym.Dir())
	vsym.Assert(err == nil, "open failed")
	ctx := context.Background()
	role := vsym.IntRange("role", 0, 3)
	var provider ReplicationInfoProvider
	want := pb.GetNodeInfoResponse_STANDALONE
	wantAddr := ""
	if role > 0 {
		cfg := replication.DefaultManagerConfig()
		cfg.Enabled = true
		cfg.PrimaryAddr, cfg.ListenAddr = "primary.example:50052", "self.example:50053"
		switch role {
		case 1:
			cfg.Mode, want, wantAddr = replication.ReplicationModePrimary, pb.GetNodeInfoResponse_PRIMARY, "self.example:50053"
		case 2:
			cfg.Mode, want, wantAddr = replication.ReplicationModeReplica, pb.GetNodeInfoResponse_REPLICA, "primary.example:50052"
		case 3:
			cfg.Mode = replication.ReplicationModeStandalone
		}
		m, err := replication.NewManager(e, cfg)
		vsym.Assert(err == nil, "replication.NewManager failed")
		provider = m
	}
	s := NewKevoServiceServer(e, transaction.NewRegistry(), provider)
	for round := 0; round < 2; round++ {
		ro := vsym.IntRange("readonly", 0, 1) == 1
		e.SetReadOnly(ro)
		r, err := s.GetNodeInfo(ctx, &pb.GetNodeInfoRequest{})
		vsym.Assert(err == nil, "GetNodeInfo failed")
		vsym.Assert(r.NodeRole == want, "node info reports a role other than the configured one")
		if role == 1 || role == 2 {
			vsym.Assert(r.PrimaryAddress == wantAddr, "node info reports a wrong primary address")
		}
		if role > 0 {
			vsym.Assert(r.ReadOnly == ro, "node info reports a read-only status other than the engine's")
		}
		// and the status is not only reported but enforced
		perr := e.Put([]byte{1}, []byte{1})
		vsym.Assert((perr != nil) == ro, "the reported read-only status is not the enforced one")
	}
	vsym.Reach("done")
}

// VerifC16_ServiceRejectsOnReplica: on a node whose engine is read-only, every mutating request of the remote API -
// Put, Delete, BatchWrite, a read-write BeginTransaction followed by TxPut/TxDelete and commit, Compact with and
// without force - leaves the data unchanged (no key appears, the existing key keeps its value, no marker key),
// the plain writes fail with an error, nothing is left locked, and reads (Get, Scan) are still served.
func VerifC16_ServiceRejectsOnReplica() {
	e, err := engine.NewEngineFacade(vsym.Dir())
	vsym.Assert(err == nil, "open failed")
	s := NewKevoServiceServer(e, transaction.NewRegistry(), nil)
	ctx := context.Background()
	k0, k1 := vsym.Bytes("k0", 1), vsym.Bytes("k1", 1)
	vsym.Assume(vsym.LessBytes(k0, k1))
	v0 := vsym.Bytes("v0", 1)
	vsym.Assert(e.Put(k0, v0) == nil, "setup put failed")
	e.SetReadOnly(true)
	nv := vsym.Bytes("nv", 1)
	switch vsym.IntRange("request", 0, 5) {
	case 0:
		_, err := s.Put(ctx, &pb.PutRequest{Key: k1, Value: nv})
		vsym.Assert(err != nil, "a remote Put was accepted on a replica")
	case 1:
		_, err := s.Delete(ctx, &pb.DeleteRequest{Key: k0})
		vsym.Assert(err != nil, "a remote Delete was accepted on a replica")
	case 2:
		_, err := s.BatchWrite(ctx, &pb.BatchWriteRequest{Operations: []*pb.Operation{{Type: pb.Operation_PUT, Key: k1, Value: nv}, {Type: pb.Operation_DELETE, Key: k0}}})
		vsym.Assert(err != nil, "a remote BatchWrite was accepted on a replica")
	case 3:
		br, err := s.BeginTransaction(ctx, &pb.BeginTransactionRequest{ReadOnly: false})
		if err == nil {
			_, perr := s.TxPut(ctx, &pb.TxPutRequest{TransactionId: br.TransactionId, Key: k1, Value: nv})
			_, derr := s.TxDelete(ctx, &pb.TxDeleteRequest{TransactionId: br.TransactionId, Key: k0})
			vsym.Assert(perr != nil && derr != nil, "a transaction begun remotely on a replica accepted a write")
			s.CommitTransaction(ctx, &pb.CommitTransactionRequest{TransactionId: br.TransactionId})
		} else {
			vsym.Quiesce() // the begin deadline fired: let the late transaction be rolled back
		}
	case 4:
		s.Compact(ctx, &pb.CompactRequest{Force: true})
	case 5:
		s.Compact(ctx, &pb.CompactRequest{Force: false})
	}
	got, gerr := e.Get(k0)
	vsym.Assert(gerr == nil && vsym.EqBytes(got, v0), "a rejected remote mutation changed existing data on a replica")
	_, gerr = e.Get(k1)
	vsym.Assert(gerr != nil, "a rejected remote mutation created data on a replica")
	_, gerr = e.Get([]byte("__compact_marker__"))
	vsym.Assert(gerr != nil, "a remote Compact wrote its marker key on a replica")
	vsym.Assert(vsym.Held(e.GetTransactionManager().GetRWLock()) == 0, "a rejected remote mutation left the database lock held")
	gr, err := s.Get(ctx, &pb.GetRequest{Key: k0})
	vsym.Assert(err == nil && gr.Found, "a replica no longer serves reads after a rejected mutation")
	sink := &scanSink{}
	vsym.Assert(s.Scan(&pb.ScanRequest{}, sink) == nil && len(sink.keys) == 1, "a replica no longer serves scans after a rejected mutation")
	vsym.Assert(e.IsReadOnly(), "the read-only flag was lost")
	vsym.Reach("done")
}
