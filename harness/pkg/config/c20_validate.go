//go:build verif

package config

import (
	"math"

	"github.com/KevoDB/kevo/pkg/zzverif/vsym"
)

func symInt(name string) int     { return int(vsym.Uint64(name)) }
func symInt64(name string) int64 { return int64(vsym.Uint64(name)) }
func symStr(name string) string {
	if vsym.IntRange(name, 0, 1) == 0 {
		return ""
	}
	return "/x"
}

// VerifC20_Validate: Validate accepts exactly the configurations that satisfy every documented constraint.
func VerifC20_Validate() {
	c := &Config{
		Version:                symInt("Version"),
		WALDir:                 symStr("WALDir"),
		WALSyncMode:            SyncMode(symInt("WALSyncMode")),
		WALSyncBytes:           symInt64("WALSyncBytes"),
		WALMaxSize:             symInt64("WALMaxSize"),
		MemTableSize:           symInt64("MemTableSize"),
		MaxMemTables:           symInt("MaxMemTables"),
		MaxMemTableAge:         symInt64("MaxMemTableAge"),
		MemTablePoolCap:        symInt("MemTablePoolCap"),
		SSTDir:                 symStr("SSTDir"),
		SSTableBlockSize:       symInt("SSTableBlockSize"),
		SSTableIndexSize:       symInt("SSTableIndexSize"),
		SSTableMaxSize:         symInt64("SSTableMaxSize"),
		SSTableRestartSize:     symInt("SSTableRestartSize"),
		CompactionLevels:       symInt("CompactionLevels"),
		CompactionRatio:        vsym.Float64("CompactionRatio"),
		CompactionThreads:      symInt("CompactionThreads"),
		CompactionInterval:     symInt64("CompactionInterval"),
		MaxLevelWithTombstones: symInt("MaxLevelWithTombstones"),
		ReadOnlyTxTTL:          symInt64("ReadOnlyTxTTL"),
		ReadWriteTxTTL:         symInt64("ReadWriteTxTTL"),
		IdleTxTimeout:          symInt64("IdleTxTimeout"),
		TxCleanupInterval:      symInt64("TxCleanupInterval"),
		TxWarningThreshold:     symInt("TxWarningThreshold"),
		TxCriticalThreshold:    symInt("TxCriticalThreshold"),
	}
	// the documented constraints (config.go error texts / docs/config.md), one conjunct per rule
	ok := c.Version > 0
	ok = vsym.And(ok, c.WALDir != "")
	ok = vsym.And(ok, c.SSTDir != "")
	ok = vsym.And(ok, c.MemTableSize > 0)
	ok = vsym.And(ok, c.MaxMemTables > 0)
	ok = vsym.And(ok, c.SSTableBlockSize > 0)
	ok = vsym.And(ok, c.SSTableIndexSize > 0)
	ok = vsym.And(ok, c.CompactionLevels > 0)
	ok = vsym.And(ok, c.CompactionRatio > 1.0)
	ok = vsym.And(ok, c.CompactionRatio <= math.MaxFloat64) // finite: an infinite ratio cannot be stored
	ok = vsym.And(ok, c.ReadOnlyTxTTL > 0)
	ok = vsym.And(ok, c.ReadWriteTxTTL > 0)
	ok = vsym.And(ok, c.IdleTxTimeout > 0)
	ok = vsym.And(ok, c.TxCleanupInterval > 0)
	ok = vsym.And(ok, vsym.And(c.TxWarningThreshold >= 1, c.TxWarningThreshold <= 99))
	ok = vsym.And(ok, vsym.And(c.TxCriticalThreshold > c.TxWarningThreshold, c.TxCriticalThreshold <= 99))
	err := c.Validate()
	vsym.Assert((err == nil) == ok, "Validate disagrees with the documented constraints")
	vsym.Reach("done")
}
