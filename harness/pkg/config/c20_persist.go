//go:build verif

package config

import (
	"os"
	"path/filepath"

	"github.com/KevoDB/kevo/pkg/zzverif/vsym"
)

// c20Config builds a configuration whose numeric fields all sit at symbolic values (the validity-relevant ones and
// the ones Validate does not look at alike: a stored setting must come back whatever its value, zero included).
func c20Config(dir string) *Config {
	c := NewDefaultConfig(dir)
	c.Version = symInt("Version")
	c.WALSyncMode = SyncMode(vsym.IntRange("sync", 0, 2))
	c.WALSyncBytes = symInt64("WALSyncBytes")
	c.WALMaxSize = symInt64("WALMaxSize")
	c.MemTableSize = symInt64("MemTableSize")
	c.MaxMemTables = symInt("MaxMemTables")
	c.MaxMemTableAge = symInt64("MaxMemTableAge")
	c.MemTablePoolCap = symInt("MemTablePoolCap")
	c.SSTableBlockSize = symInt("SSTableBlockSize")
	c.SSTableIndexSize = symInt("SSTableIndexSize")
	c.SSTableMaxSize = symInt64("SSTableMaxSize")
	c.SSTableRestartSize = symInt("SSTableRestartSize")
	c.CompactionLevels = symInt("CompactionLevels")
	c.CompactionRatio = vsym.Float64("CompactionRatio")
	c.CompactionThreads = symInt("CompactionThreads")
	c.CompactionInterval = symInt64("CompactionInterval")
	c.MaxLevelWithTombstones = symInt("MaxLevelWithTombstones")
	c.ReadOnlyTxTTL = symInt64("ReadOnlyTxTTL")
	c.ReadWriteTxTTL = symInt64("ReadWriteTxTTL")
	c.IdleTxTimeout = symInt64("IdleTxTimeout")
	c.TxCleanupInterval = symInt64("TxCleanupInterval")
	c.TxWarningThreshold = symInt("TxWarningThreshold")
	c.TxCriticalThreshold = symInt("TxCriticalThreshold")
	return c
}

// c20Same compares every stored setting.
func c20Same(a, b *Config) bool {
	ok := a.WALDir == b.WALDir && a.SSTDir == b.SSTDir && a.WALSyncMode == b.WALSyncMode
	ok = vsym.And(ok, a.Version == b.Version)
	ok = vsym.And(ok, a.WALSyncBytes == b.WALSyncBytes)
	ok = vsym.And(ok, a.WALMaxSize == b.WALMaxSize)
	ok = vsym.And(ok, a.MemTableSize == b.MemTableSize)
	ok = vsym.And(ok, a.MaxMemTables == b.MaxMemTables)
	ok = vsym.And(ok, a.MaxMemTableAge == b.MaxMemTableAge)
	ok = vsym.And(ok, a.MemTablePoolCap == b.MemTablePoolCap)
	ok = vsym.And(ok, a.SSTableBlockSize == b.SSTableBlockSize)
	ok = vsym.And(ok, a.SSTableIndexSize == b.SSTableIndexSize)
	ok = vsym.And(ok, a.SSTableMaxSize == b.SSTableMaxSize)
	ok = vsym.And(ok, a.SSTableRestartSize == b.SSTableRestartSize)
	ok = vsym.And(ok, a.CompactionLevels == b.CompactionLevels)
	ok = vsym.And(ok, a.CompactionRatio == b.CompactionRatio)
	ok = vsym.And(ok, a.CompactionThreads == b.CompactionThreads)
	ok = vsym.And(ok, a.CompactionInterval == b.CompactionInterval)
	ok = vsym.And(ok, a.MaxLevelWithTombstones == b.MaxLevelWithTombstones)
	ok = vsym.And(ok, a.ReadOnlyTxTTL == b.ReadOnlyTxTTL)
	ok = vsym.And(ok, a.ReadWriteTxTTL == b.ReadWriteTxTTL)
	ok = vsym.And(ok, a.IdleTxTimeout == b.IdleTxTimeout)
	ok = vsym.And(ok, a.TxCleanupInterval == b.TxCleanupInterval)
	ok = vsym.And(ok, a.TxWarningThreshold == b.TxWarningThreshold)
	ok = vsym.And(ok, a.TxCriticalThreshold == b.TxCriticalThreshold)
	return ok
}

// VerifC20_SaveLoad: SaveManifest of a configuration with symbolic fields. A configuration violating a constraint
// is rejected before anything is written (no manifest, no temporary file, an existing manifest untouched); one
// that passes validation is stored and LoadConfigFromManifest gives every setting back unchanged (the JSON text itself
// is a stub; which fields reach the text and come back follows the struct tags), also via the Manifest type.
func VerifC20_SaveLoad() {
	dir := vsym.Dir()
	os.MkdirAll(dir, 0755)
	hadOld := vsym.IntRange("existing", 0, 1) == 1
	old := NewDefaultConfig(dir)
	if hadOld {
		old.MaxMemTables = 7
		vsym.Assert(old.SaveManifest(dir) == nil, "saving the old configuration failed")
	}
	c := c20Config(dir)
	valid := c.Validate() == nil
	serr := c.SaveManifest(dir)
	vsym.Observe("saveerr", serr)
	_, tmpErr := os.Stat(filepath.Join(dir, DefaultManifestFileName+".tmp"))
	vsym.Assert(tmpErr != nil, "SaveManifest leaves its temporary file behind")
	loaded, lerr := LoadConfigFromManifest(dir)
	if !valid {
		vsym.Assert(serr != nil, "a configuration violating a constraint was stored")
		if hadOld {
			vsym.Assert(lerr == nil && loaded.MaxMemTables == 7, "a rejected configuration damaged the stored one")
		} else {
			vsym.Assert(lerr == ErrManifestNotFound, "a rejected configuration left a manifest behind")
		}
		vsym.Reach("rejected")
		return
	}
	vsym.Assert(serr == nil, "a valid configuration was refused")
	vsym.Assert(lerr == nil, "a stored valid configuration cannot be loaded")
	if lerr == nil {
		vsym.Assert(c20Same(loaded, c), "the loaded configuration differs from the stored one")
	}
	vsym.Reach("stored")
}

// VerifC20_SaveCrashAtomic: the process dies (process death or power loss) at any file-system step of storing a new
// configuration over an old one. Afterwards the manifest is the old configuration or the complete new one -
// never missing, empty or cut.
func VerifC20_SaveCrashAtomic() {
	dir := vsym.Dir()
	os.MkdirAll(dir, 0755)
	old := NewDefaultConfig(dir)
	old.MaxMemTables = 7
	vsym.Assert(old.SaveManifest(dir) == nil, "saving the old configuration failed")
	vsym.Durable()
	nc := NewDefaultConfig(dir)
	nc.MaxMemTables = 9
	mode := vsym.IntRange("mode", 1, 2)
	saved := 0
	vsym.CrashRegion(mode, func() {
		if nc.SaveManifest(dir) == nil {
			saved = 1
		}
	}, &saved)
	loaded, lerr := LoadConfigFromManifest(dir)
	vsym.Assert(lerr == nil, "after a crash while storing a new configuration the manifest is missing or unreadable")
	if lerr == nil {
		vsym.Assert(loaded.MaxMemTables == 7 || loaded.MaxMemTables == 9, "after a crash the manifest holds neither the old nor the new configuration")
		if saved == 1 && vsym.CrashKind() == 0 {
			vsym.Assert(loaded.MaxMemTables == 9, "an acknowledged configuration change is not stored")
		}
	}
	vsym.Reach("done")
}
