//go:build verif

package sstable

import (
	"bytes"
	"os"

	"github.com/KevoDB/kevo/pkg/zzverif/vsym"
)

// VerifC11_SeekRestartInterval: 17-18 ascending keys (two restart intervals in one block); Seek(t) for a symbolic
// target lands on the first key >= t, and iteration from there yields the rest once each.
func VerifC11_SeekRestartInterval() {
	os.MkdirAll(vsym.Dir()+"/sst", 0755)
	path := vsym.Dir() + "/sst/0_000001_00000000000000000001.sst"
	w, err := NewWriter(path)
	vsym.Assert(err == nil, "NewWriter failed")
	n := vsym.IntRange("n", 17, 18)
	var ks [][]byte
	for i := 0; i < n; i++ {
		k := vsym.Bytes("k", 1)
		if i > 0 {
			vsym.Assume(ks[i-1][0] < k[0])
		}
		vsym.Assert(w.AddWithSequence(k, []byte{byte(i)}, uint64(i+1)) == nil, "add failed")
		ks = append(ks, k)
	}
	vsym.Assert(w.Finish() == nil, "Finish failed")
	r, err := OpenReader(path)
	vsym.Assert(err == nil, "OpenReader failed")
	t := vsym.Bytes("t", 1)
	it := r.NewIterator()
	ok := it.Seek(t)
	exp := 0
	for exp < n && bytes.Compare(ks[exp], t) < 0 {
		exp++
	}
	if exp == n {
		vsym.Assert(!ok || !it.Valid(), "Seek past the end must be invalid")
	} else {
		vsym.Assert(ok && it.Valid(), "Seek must find an entry")
		for i := exp; i < n && it.Valid(); i++ {
			vsym.Assert(vsym.EqBytes(it.Key(), ks[i]), "Seek/Next yields a wrong key")
			vsym.Assert(len(it.Value()) == 1 && it.Value()[0] == byte(i), "Seek/Next yields a wrong value")
			it.Next()
		}
		vsym.Assert(!it.Valid(), "iteration after Seek yields extra entries")
	}
	vsym.Reach("done")
}
