//go:build verif

package sstable

import (
	"os"

	"github.com/KevoDB/kevo/pkg/sstable/footer"
	"github.com/KevoDB/kevo/pkg/zzverif/vsym"
)

// c11Written reports (without forking) whether the iterator's current entry is one of the written entries.
func c11Written(it *Iterator, es []c11Entry) bool {
	k, v, tomb, seq := it.Key(), it.Value(), it.IsTombstone(), it.SequenceNumber()
	any := false
	for _, e := range es {
		same := vsym.And(vsym.EqBytes(k, e.k), vsym.And(tomb == e.tomb, seq == e.seq))
		if !e.tomb {
			same = vsym.And(same, vsym.And(len(v) == len(e.v), vsym.EqBytes(v, e.v)))
		}
		any = vsym.Or(any, same)
	}
	return any
}

// VerifC11_FlipOneByte: one byte at any position of a finished table file (data block, restart array, block
// trailer, bloom section, index block, footer) is replaced by a symbolic different value. Opening, iterating,
// seeking and looking keys up then either fail with an error / end early, or yield only entries that were
// written (same key, value, deletion flag and sequence number), in ascending order - and never panic.
func VerifC11_FlipOneByte() {
	path := vsym.Dir() + "/sst/0_000001_00000000000000000001.sst"
	N := 2
	if vsym.Thorough() {
		N = 3
	}
	n := vsym.IntRange("n", 1, N)
	es := c11Write(path, n)
	data, err := os.ReadFile(path)
	vsym.Assert(err == nil, "ReadFile failed")
	// every position of the file, except that of the interior of the bloom filter's bit array (all of whose bytes
	// play the same role) only the first two, one in the middle and the last two are taken
	pos := vsym.IntRange("pos", 0, len(data)-1)
	if ft, ferr := footer.Decode(data[len(data)-footer.FooterSize:]); ferr == nil && ft.BloomFilterSize > 64 {
		lo := int(ft.BloomFilterOffset) + 12 + 32 // section entry header (block offset, size) + filter header
		hi := int(ft.BloomFilterOffset) + int(ft.BloomFilterSize)
		mid := (lo + hi) / 2
		interior := pos >= lo+2 && pos < hi-2 && pos != mid
		vsym.Assume(!interior)
	}
	nb := vsym.Byte("newbyte")
	vsym.Assume(nb != data[pos])
	data[pos] = nb
	vsym.Assert(os.WriteFile(path, data, 0644) == nil, "rewrite failed")
	r, err := OpenReader(path)
	if err != nil {
		vsym.Reach("rejected-at-open")
		return
	}
	switch vsym.IntRange("mode", 0, 2) {
	case 0:
		it := r.NewIterator()
		cnt := 0
		var prev []byte
		for it.SeekToFirst(); it.Valid(); it.Next() {
			vsym.Assert(c11Written(it, es), "a damaged table yields an entry that was never written (key, value, deletion flag or sequence number differs)")
			if cnt > 0 {
				vsym.Assert(vsym.LessBytes(prev, it.Key()), "a damaged table yields entries out of order or twice")
			}
			prev = append([]byte(nil), it.Key()...)
			cnt++
			vsym.Assert(cnt <= n, "a damaged table yields more entries than were written")
		}
	case 1:
		t := vsym.Bytes("t", 1)
		it := r.NewIterator()
		if it.Seek(t) && it.Valid() {
			vsym.Assert(c11Written(it, es), "Seek on a damaged table lands on an entry that was never written")
			vsym.Assert(vsym.Not(vsym.LessBytes(it.Key(), t)), "Seek on a damaged table lands below its target")
		}
	case 2:
		q := vsym.Bytes("q", 1)
		got, gerr := r.Get(q)
		if gerr == nil {
			ok := false
			for _, e := range es {
				if e.tomb {
					ok = vsym.Or(ok, vsym.And(vsym.EqBytes(e.k, q), got == nil))
				} else {
					ok = vsym.Or(ok, vsym.And(vsym.EqBytes(e.k, q), vsym.And(len(got) == len(e.v), vsym.EqBytes(got, e.v))))
				}
			}
			vsym.Assert(ok, "point lookup on a damaged table returns a key or value that was never written")
		}
	}
	vsym.Reach("done")
}
