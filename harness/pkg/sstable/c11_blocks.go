//go:build verif

package sstable

import (
	"bytes"
	"os"

	"github.com/KevoDB/kevo/pkg/zzverif/vsym"
)

// VerifC11_GetAcrossBlocks: two data blocks (the first closed by a 64 KiB value), ≤2 keys per block; every written
// key is found by the point lookup with its value, an absent key is not found. Exercises index block selection and
// the per-block bloom filters (hash as an uninterpreted function, set/test-bit executed for real).
func VerifC11_GetAcrossBlocks() {
	os.MkdirAll(vsym.Dir()+"/sst", 0755)
	path := vsym.Dir() + "/sst/0_000001_00000000000000000001.sst"
	w, err := NewWriter(path)
	vsym.Assert(err == nil, "NewWriter failed")
	var ks, vs [][]byte
	add := func(v []byte) {
		k := vsym.Bytes("k", 1)
		if len(ks) > 0 {
			vsym.Assume(bytes.Compare(ks[len(ks)-1], k) < 0)
		}
		vsym.Assert(w.AddWithSequence(k, v, uint64(len(ks)+1)) == nil, "add failed")
		ks, vs = append(ks, k), append(vs, v)
	}
	n1 := vsym.IntRange("n1", 0, 1)
	for i := 0; i < n1; i++ {
		add(vsym.Bytes("v", 1))
	}
	add(vsym.Bytes("big", 64*1024)) // closes block 1
	n2 := vsym.IntRange("n2", 1, 2)
	for i := 0; i < n2; i++ {
		add(vsym.Bytes("v", 1))
	}
	vsym.Assert(w.Finish() == nil, "Finish failed")
	r, err := OpenReader(path)
	vsym.Assert(err == nil, "OpenReader failed")
	if vsym.IntRange("probe", 0, 1) == 0 {
		qi := vsym.IntRange("qi", 0, len(ks)-1)
		got, gerr := r.Get(ks[qi])
		vsym.Assert(gerr == nil, "point lookup misses a written key")
		if gerr == nil {
			vsym.Assert(vsym.EqBytes(got, vs[qi]), "point lookup returns a wrong value")
		}
	} else {
		q := vsym.Bytes("q", 1)
		absent := true
		for _, k := range ks {
			absent = vsym.And(absent, vsym.Not(vsym.EqBytes(k, q)))
		}
		vsym.Assume(absent)
		_, gerr := r.Get(q)
		vsym.Assert(gerr != nil, "point lookup finds a key that was never written")
	}
	vsym.Reach("done")
}
