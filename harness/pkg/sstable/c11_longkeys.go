//go:build verif

package sstable

import (
	"os"

	"github.com/KevoDB/kevo/pkg/zzverif/vsym"
)

// VerifC11_LongKeysSharedPrefix: three entries whose keys are long enough (9, 10 and 17 bytes) for any word-wise
// or multi-byte treatment of the shared-prefix computation of the block format, with every key byte symbolic
// (ascending order assumed: the writer's precondition), so that consecutive keys may share any prefix - none, a few
// bytes, a whole 8-byte word and more - and differ anywhere. Iteration yields the three keys exactly; Seek(k_i)
// finds k_i; Get finds each of them.
func VerifC11_LongKeysSharedPrefix() {
	os.MkdirAll(vsym.Dir()+"/sst", 0755)
	path := vsym.Dir() + "/sst/0_000001_00000000000000000001.sst"
	w, err := NewWriter(path)
	vsym.Assert(err == nil, "NewWriter failed")
	ks := [3][]byte{vsym.Bytes("a", 9), vsym.Bytes("b", 10), vsym.Bytes("c", 17)}
	vsym.Assume(vsym.LessBytes(ks[0], ks[1]))
	vsym.Assume(vsym.LessBytes(ks[1], ks[2]))
	for i := range ks {
		vsym.Assert(w.AddWithSequence(ks[i], []byte{byte(i + 1)}, uint64(i+1)) == nil, "add failed")
	}
	vsym.Assert(w.Finish() == nil, "Finish failed")
	r, err := OpenReader(path)
	vsym.Assert(err == nil, "OpenReader failed")
	it := r.NewIterator()
	i := 0
	for it.SeekToFirst(); it.Valid(); it.Next() {
		vsym.Assert(i < 3, "iteration yields more entries than were written")
		if i >= 3 {
			return
		}
		vsym.Assert(len(it.Key()) == len(ks[i]) && vsym.EqBytes(it.Key(), ks[i]), "a key with a long shared prefix reads back as other bytes")
		vsym.Assert(len(it.Value()) == 1 && it.Value()[0] == byte(i+1), "an entry reads back with another entry's value")
		i++
	}
	vsym.Assert(i == 3, "iteration misses an entry")
	qi := vsym.IntRange("probe", 0, 2)
	got, gerr := r.Get(ks[qi])
	vsym.Assert(gerr == nil && len(got) == 1 && got[0] == byte(qi+1), "point lookup of a written key with a long shared prefix fails")
	it2 := r.NewIterator()
	vsym.Assert(it2.Seek(ks[qi]) && it2.Valid() && vsym.EqBytes(it2.Key(), ks[qi]), "Seek to a written key with a long shared prefix does not land on it")
	vsym.Reach("done")
}
