//go:build verif

package sstable

import (
	"os"

	"github.com/KevoDB/kevo/pkg/zzverif/vsym"
)

type c11Entry struct {
	k, v []byte
	tomb bool
	seq  uint64
}

// c11Write writes n strictly ascending entries with the real writer: keys of 1 byte (thorough: 1-2 bytes),
// each entry a deletion marker, an empty value or a one-byte value, with arbitrary 64-bit sequence numbers.
func c11Write(path string, n int) []c11Entry {
	os.MkdirAll(vsym.Dir()+"/sst", 0755)
	w, err := NewWriter(path)
	vsym.Assert(err == nil, "NewWriter failed")
	var es []c11Entry
	for i := 0; i < n; i++ {
		kl := 1
		if vsym.Thorough() {
			kl = vsym.IntRange("klen", 1, 2)
		}
		e := c11Entry{k: vsym.Bytes("k", kl), seq: vsym.Uint64("seq")}
		if i > 0 {
			vsym.Assume(vsym.LessBytes(es[i-1].k, e.k)) // the writer's documented precondition
		}
		switch vsym.IntRange("kind", 0, 2) {
		case 0:
			e.v = vsym.Bytes("v", 1)
		case 1:
			e.v = []byte{}
		case 2:
			e.tomb = true
		}
		vsym.Assert(w.AddWithSequence(e.k, e.v, e.seq) == nil, "add failed")
		es = append(es, e)
	}
	vsym.Assert(w.Finish() == nil, "Finish failed")
	return es
}

func c11Same(it *Iterator, e c11Entry) {
	vsym.Assert(vsym.EqBytes(it.Key(), e.k), "entry key differs")
	vsym.Assert(it.IsTombstone() == e.tomb, "deletion flag differs")
	if !e.tomb {
		vsym.Assert(vsym.EqBytes(it.Value(), e.v), "value differs")
	}
	vsym.Assert(it.SequenceNumber() == e.seq, "sequence number differs")
}

// VerifC11_RoundTripSmall: a table of <=3 (thorough <=4) entries reads back exactly: forward iteration, Seek(t)
// followed by Next*, SeekToLast, and point lookups of a symbolic key.
func VerifC11_RoundTripSmall() {
	path := vsym.Dir() + "/sst/0_000001_00000000000000000001.sst"
	N := 3
	if vsym.Thorough() {
		N = 4
	}
	n := vsym.IntRange("n", 1, N)
	es := c11Write(path, n)
	r, err := OpenReader(path)
	vsym.Assert(err == nil, "OpenReader failed")
	switch vsym.IntRange("mode", 0, 4) {
	case 0: // forward iteration
		it := r.NewIterator()
		i := 0
		for it.SeekToFirst(); it.Valid(); it.Next() {
			vsym.Assert(i < n, "iteration yields too many entries")
			c11Same(it, es[i])
			i++
		}
		vsym.Assert(i == n, "iteration yields too few entries")
	case 1: // Seek(t); Next*
		t := vsym.Bytes("t", 1)
		it := r.NewIterator()
		ok := it.Seek(t)
		exp := 0
		for exp < n && vsym.LessBytes(es[exp].k, t) {
			exp++
		}
		vsym.Observe("seekok", ok)
		if exp == n {
			vsym.Assert(!ok || !it.Valid(), "Seek past the end must be invalid")
		} else {
			vsym.Assert(ok && it.Valid(), "Seek must find an entry")
			for i := exp; i < n; i++ {
				vsym.Assert(it.Valid(), "iteration after Seek ends early")
				c11Same(it, es[i])
				it.Next()
			}
			vsym.Assert(!it.Valid(), "iteration after Seek yields extra entries")
		}
	case 2: // SeekToLast
		it := r.NewIterator()
		it.SeekToLast()
		vsym.Assert(it.Valid(), "SeekToLast on a non-empty table is invalid")
		c11Same(it, es[n-1])
	case 3: // point lookup of a symbolic key
		q := vsym.Bytes("q", 1)
		got, gerr := r.Get(q)
		vsym.Observe("geterr", gerr)
		live, any := false, false
		for _, e := range es {
			any = vsym.Or(any, vsym.EqBytes(e.k, q))
			live = vsym.Or(live, vsym.And(!e.tomb, vsym.EqBytes(e.k, q)))
		}
		if gerr == nil {
			vsym.Assert(any, "point lookup finds a key that was never written")
			ok := true
			for _, e := range es {
				if !e.tomb {
					ok = vsym.And(ok, vsym.Implies(vsym.EqBytes(e.k, q), vsym.EqBytes(got, e.v)))
				} else {
					ok = vsym.And(ok, vsym.Implies(vsym.EqBytes(e.k, q), got == nil))
				}
			}
			vsym.Assert(ok, "point lookup returns a wrong value")
		} else {
			vsym.Assert(vsym.Not(any), "point lookup misses a written key")
		}
		_ = live
	case 4: // Next on a fresh iterator positions on the first entry, then walks the table
		it := r.NewIterator()
		i := 0
		for it.Next() {
			vsym.Assert(i < n, "fresh-iterator Next loop yields too many entries")
			c11Same(it, es[i])
			i++
		}
		vsym.Assert(i == n, "fresh-iterator Next loop yields too few entries")
	}
	vsym.Reach("done")
}
