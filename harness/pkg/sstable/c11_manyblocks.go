//go:build verif

package sstable

import (
	"os"

	"github.com/KevoDB/kevo/pkg/sstable/block"
	"github.com/KevoDB/kevo/pkg/zzverif/vsym"
)

// VerifC11_ManyBlocks: a table of 18 (thorough 34) data blocks - one entry with a block-sized value per block - so
// that the index block itself spans more than one restart interval (16 entries). Keys are 10, 20, 30, ...; for a
// symbolic one-byte target t (present, between two keys, before the first, after the last): Seek(t) lands on the
// first key >= t and Next* yields every later entry once, in order, with its sequence number; a second Seek on the
// same iterator (symbolic target, forwards or backwards, also after a Seek past the end) lands correctly as well;
// Get finds exactly the written keys.
func VerifC11_ManyBlocks() {
	os.MkdirAll(vsym.Dir()+"/sst", 0755)
	path := vsym.Dir() + "/sst/0_000001_00000000000000000001.sst"
	w, err := NewWriter(path)
	vsym.Assert(err == nil, "NewWriter failed")
	n := 18
	if vsym.Thorough() {
		n = 34
	}
	mark := vsym.Byte("mark") // one symbolic byte at both ends of every value
	for i := 0; i < n; i++ {
		v := make([]byte, block.BlockSize)
		for j := range v {
			v[j] = byte(j*7 + i)
		}
		v[0], v[len(v)-1] = mark, mark
		vsym.Assert(w.AddWithSequence([]byte{byte(10 * (i + 1) % 256), byte(i / 25)}, v, uint64(100+i)) == nil, "add failed")
	}
	vsym.Assert(w.Finish() == nil, "Finish failed")
	r, err := OpenReader(path)
	vsym.Assert(err == nil, "OpenReader failed")
	key := func(i int) []byte { return []byte{byte(10 * (i + 1) % 256), byte(i / 25)} }
	// keys ascend as two-byte strings only while 10*(i+1) < 256: use the first 25 at most
	if n > 25 {
		n = 25
	}
	_ = key
	mode := vsym.IntRange("mode", 0, 2)
	if mode == 2 {
		q := vsym.Bytes("q", 2)
		got, gerr := r.Get(q)
		isKey := false
		for i := 0; i < n; i++ {
			if q[0] == key(i)[0] && q[1] == key(i)[1] {
				isKey = true
				vsym.Assert(gerr == nil && len(got) == block.BlockSize && got[1] == byte(7+i), "point lookup misses a written key or returns another entry's value")
			}
		}
		if !isKey {
			vsym.Assert(gerr != nil, "point lookup finds a key that was never written")
		}
		vsym.Reach("done")
		return
	}
	it := r.NewIterator()
	if mode == 1 {
		// the iterator has been used before: a Seek beyond the last key (invalid), or a Seek onto the last key
		first := []byte{255}
		if vsym.IntRange("firstSeek", 0, 1) == 1 {
			first = key(n - 1)
		}
		it.Seek(first)
	}
	t := vsym.Bytes("t", 1)
	ok := it.Seek(t)
	exp := 0
	for exp < n && key(exp)[0] < t[0] {
		exp++
	}
	if exp == n {
		vsym.Assert(!ok || !it.Valid(), "Seek past the end must be invalid")
		vsym.Reach("done")
		return
	}
	vsym.Assert(ok && it.Valid(), "Seek must find an entry")
	if !it.Valid() {
		return
	}
	vsym.Assert(vsym.EqBytes(it.Key(), key(exp)), "Seek does not land on the first key >= its target")
	vsym.Assert(it.SequenceNumber() == uint64(100+exp), "an entry came back with another sequence number")
	for i := exp; i < n; i++ {
		vsym.Assert(it.Valid(), "iteration ends early")
		if !it.Valid() {
			return
		}
		vsym.Assert(vsym.EqBytes(it.Key(), key(i)), "Seek/Next yields a wrong key")
		v := it.Value()
		vsym.Assert(len(v) == block.BlockSize && v[0] == mark && v[len(v)-1] == mark && v[1] == byte(7+i), "an entry came back with another value")
		it.Next()
	}
	vsym.Assert(!it.Valid(), "iteration after Seek yields extra entries")
	vsym.Reach("done")
}
