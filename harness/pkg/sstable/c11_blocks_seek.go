//go:build verif

package sstable

import (
	"bytes"
	"os"

	"github.com/KevoDB/kevo/pkg/zzverif/vsym"
)

// VerifC11_SeekAcrossBlocks: two data blocks; Seek(t) lands on the first key >= t wherever it lies, and the
// iteration from there yields the remaining keys once each.
func VerifC11_SeekAcrossBlocks() {
	os.MkdirAll(vsym.Dir()+"/sst", 0755)
	path := vsym.Dir() + "/sst/0_000001_00000000000000000001.sst"
	w, err := NewWriter(path)
	vsym.Assert(err == nil, "NewWriter failed")
	var ks [][]byte
	add := func(v []byte) {
		k := vsym.Bytes("k", 1)
		if len(ks) > 0 {
			vsym.Assume(ks[len(ks)-1][0] < k[0])
		}
		vsym.Assert(w.AddWithSequence(k, v, uint64(len(ks)+1)) == nil, "add failed")
		ks = append(ks, k)
	}
	add(vsym.Bytes("v", 1))
	add(vsym.Bytes("big", 64*1024)) // closes block 1
	n2 := vsym.IntRange("n2", 1, 2)
	for i := 0; i < n2; i++ {
		add(vsym.Bytes("v", 1))
	}
	vsym.Assert(w.Finish() == nil, "Finish failed")
	r, err := OpenReader(path)
	vsym.Assert(err == nil, "OpenReader failed")
	t := vsym.Bytes("t", 1)
	it := r.NewIterator()
	ok := it.Seek(t)
	exp := 0
	for exp < len(ks) && bytes.Compare(ks[exp], t) < 0 {
		exp++
	}
	if exp == len(ks) {
		vsym.Assert(!ok || !it.Valid(), "Seek past the end must be invalid")
	} else {
		vsym.Assert(ok && it.Valid(), "Seek must find an entry")
		for i := exp; i < len(ks) && it.Valid(); i++ {
			vsym.Assert(vsym.EqBytes(it.Key(), ks[i]), "Seek/Next yields a wrong key")
			it.Next()
		}
		vsym.Assert(!it.Valid(), "iteration after Seek yields extra entries")
	}
	vsym.Reach("done")
}
