//go:build verif

package sstable

import (
	"bytes"
	"os"

	"github.com/KevoDB/kevo/pkg/zzverif/vsym"
)

// VerifSST: write n strictly ascending 1-byte keys, reopen, iterate and seek.
func VerifSST() {
	os.MkdirAll(vsym.Dir()+"/sst", 0755)
	w, err := NewWriter(vsym.Dir()+"/sst/0_000001_00000000000000000001.sst")
	vsym.Assert(err == nil, "NewWriter failed")
	n := vsym.IntRange("n", 1, 3)
	var ks, vs [3][]byte
	var tomb [3]bool
	for i := 0; i < n; i++ {
		ks[i] = vsym.Bytes("k", 1)
		if i > 0 {
			vsym.Assume(bytes.Compare(ks[i-1], ks[i]) < 0)
		}
		if vsym.IntRange("tomb", 0, 1) == 1 {
			tomb[i] = true
			vsym.Assert(w.AddWithSequence(ks[i], nil, uint64(i+1)) == nil, "add failed")
		} else {
			vs[i] = vsym.Bytes("v", 1)
			vsym.Assert(w.AddWithSequence(ks[i], vs[i], uint64(i+1)) == nil, "add failed")
		}
	}
	vsym.Assert(w.Finish() == nil, "Finish failed")
	r, err := OpenReader(vsym.Dir()+"/sst/0_000001_00000000000000000001.sst")
	vsym.Assert(err == nil, "OpenReader failed")
	mode := vsym.IntRange("mode", 0, 1)
	if mode == 0 {
		it := r.NewIterator()
		i := 0
		for it.SeekToFirst(); it.Valid(); it.Next() {
			vsym.Assert(i < n, "iteration yields too many entries")
			if i >= n {
				break
			}
			vsym.Assert(vsym.EqBytes(it.Key(), ks[i]), "iteration key differs")
			vsym.Assert(it.IsTombstone() == tomb[i], "tombstone flag differs")
			if !tomb[i] {
				vsym.Assert(vsym.EqBytes(it.Value(), vs[i]), "value differs")
			}
			i++
		}
		vsym.Assert(i == n, "iteration yields too few entries")
	} else {
		t := vsym.Bytes("t", 1)
		it := r.NewIterator()
		ok := it.Seek(t)
		// expected: first i with ks[i] >= t
		exp := -1
		for i := 0; i < n; i++ {
			if bytes.Compare(ks[i], t) >= 0 {
				exp = i
				break
			}
		}
		if exp < 0 {
			vsym.Assert(!ok || !it.Valid(), "Seek past the end must be invalid")
		} else {
			vsym.Assert(ok && it.Valid(), "Seek must find an entry")
			if ok && it.Valid() {
				vsym.Assert(vsym.EqBytes(it.Key(), ks[exp]), "Seek landed on the wrong key")
			}
		}
	}
	vsym.Reach("done")
}
