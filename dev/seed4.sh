#!/bin/bash
# dev helper: confirm one wave-4 seeded change (worktree /tmp/wt4-<Cxx>/SEEDED4/<name>) and run its property's quick check against it.
# usage: dev/seed4.sh <Cxx> <name> [extra test pkgs...]      (the demo's package directory is read from its "// dir:" line)
prop=$1; name=$2; shift 2
src=/tmp/wt4-$prop/SEEDED4/$name
demodir=$(grep -m1 -o "^// dir: *[^ ]*" $src/demo_test.go | sed 's/^\/\/ dir: *//; s/^\.\///; s/\/$//')
log=/var/tmp/s4_$prop-$name.log
SEEDDIR=SEEDED4 /verif/dev/seed_verify.sh /tmp/wt4-$prop $name $prop $demodir "$@" > $log 2>&1
if grep -q "^STORED" $log; then
  wt=/tmp/wt-s4-$prop-$name
  git -C /repo worktree add -q --detach $wt HEAD
  if ! (cd $wt && git apply /verif/seeded/$prop-$name/patch.diff); then echo "SWEEP $prop-$name PATCH DOES NOT APPLY TO /repo HEAD" >> $log; git -C /repo worktree remove --force $wt; tail -2 $log; exit 3; fi
  (cd /verif && VERIF_REPO=$wt timeout 3000 ./check $prop quick) > $log.check 2>&1; code=$?
  grep -E "^VIOLATION|^INCONCLUSIVE|^KNOWN" $log.check | cut -c1-220 | head -6 >> $log
  grep -A2 "^VIOLATION" $log.check | grep -v "^VIOLATION\|^--" | paste - - | sed 's/^/CAUGHT-BY: /' | cut -c1-330 >> $log
  echo "SWEEP $prop-$name exit=$code" >> $log
  git -C /repo worktree remove --force $wt
fi
tail -4 $log | cut -c1-330
