#!/bin/bash
# dev helper: run every harness once with default dev flags, log to /var/tmp/runall.log
cd /verif
export VERIF_ROOT=/verif GOFLAGS=-mod=mod GOPROXY=off
out=${1:-/var/tmp/runall.log}; : > $out
grep -rn "^func Verif" harness | sed 's/(.*//' | while IFS=: read f ln fn; do
  fn=${fn#func }; pkg=$(dirname ${f#harness/})
  pre=-1; case $fn in *Conc*|*Pairs*|*Tomb*|*Begin*|*Stall*|*Vs*|*Race*) pre=1;; esac
  echo "=== $pkg $fn (preempt $pre)" >> $out
  timeout 900 ./bin/gosym run -pkg $pkg -fn $fn -preempt $pre -replay 3 -budget 600 >> $out 2>&1
done
echo ALLDONE >> $out
