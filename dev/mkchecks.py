#!/usr/bin/env python3
"""Generates /verif/checks.json (the registry the check driver reads). Edit here, run, commit both."""
import json
C = {}
# harnesses whose property does not include race freedom and whose fakes cannot reproduce the timing natively
NO_RACES = {"VerifC13_ReconnectResumes"}
def ob(fn, pkg, what, qb="", tb=None, q=None, t=None, reach=("done",), termination=False, no_validate=False):
    o = {"fn": fn, "pkg": pkg, "what": what, "quick": dict(q or {}), "thorough": dict(t or {}), "reach": list(reach)}
    if fn in NO_RACES: o["no_races"] = True
    o["quick"]["bounds"] = qb
    o["thorough"]["bounds"] = tb or qb
    if termination: o["termination"] = True
    if no_validate: o["no_validate"] = True
    return o
def check(pid, title, obs, assumptions=(), outside=(), lemmas=(), method_sets=()):
    C[pid] = {"title": title, "obligations": obs, "assumptions": list(assumptions), "outside": list(outside), "lemmas": list(lemmas), "method_sets": list(method_sets)}

# Entry points the C16/C19/C07 harnesses know about, classified when the harnesses were written. The driver compares
# these lists with the method sets of the current tree (go/types) on every run: a method that is not listed is a new
# entry point no harness covers and is reported as INCONCLUSIVE (never silently passed).
FACADE = {"pkg": "pkg/engine", "type": "EngineFacade", "known": [
    # client mutators (must be refused on a replica)
    "Put", "Delete", "ApplyBatch", "BeginTransaction", "TriggerCompaction", "CompactRange", "FlushImMemTables",
    # replication bypasses and mode switch
    "PutInternal", "DeleteInternal", "ApplyBatchInternal", "SetReadOnly",
    # readers / status / plumbing
    "Get", "IsDeleted", "GetIterator", "GetRangeIterator", "GetStats", "GetCompactionStats", "IsReadOnly", "Close",
    "GetTransactionManager", "GetWAL", "GetRWLock", "IncrementTxAborted", "IncrementTxCompleted"]}
ENGINE_IFACE = {"pkg": "pkg/engine/interfaces", "type": "Engine", "known": ["Put", "Get", "Delete", "IsDeleted", "GetIterator", "GetRangeIterator", "ApplyBatch",
    "BeginTransaction", "FlushImMemTables", "TriggerCompaction", "CompactRange", "GetStats", "GetCompactionStats", "Close", "IsReadOnly"]}
SERVICE = {"pkg": "proto/kevo", "type": "KevoServiceServer", "known": ["Get", "Put", "Delete", "BatchWrite", "Scan", "BeginTransaction", "CommitTransaction",
    "RollbackTransaction", "TxGet", "TxPut", "TxDelete", "TxScan", "GetStats", "Compact", "GetNodeInfo"]}

CONFIG_FIELDS = {"pkg": "pkg/config", "type": "Config", "fields": True, "known": ["Version", "WALDir", "WALSyncMode", "WALSyncBytes", "WALMaxSize", "MemTableSize", "MaxMemTables",
    "MaxMemTableAge", "MemTablePoolCap", "SSTDir", "SSTableBlockSize", "SSTableIndexSize", "SSTableMaxSize", "SSTableRestartSize", "CompactionLevels", "CompactionRatio",
    "CompactionThreads", "CompactionInterval", "MaxLevelWithTombstones", "ReadOnlyTxTTL", "ReadWriteTxTTL", "IdleTxTimeout", "TxCleanupInterval", "TxWarningThreshold", "TxCriticalThreshold"]}

SIMFS = "simfs: os/filepath calls go to an in-engine file-system model (write appends to the file image, fsync moves the durable watermark, rename atomic, O_EXCL honoured; directory-entry durability assumed)"
CLOCK = "time.Now is a strictly increasing concrete clock; tickers never fire by themselves"
HASH = "xxhash.Sum64 / crc32.ChecksumIEEE / bloom hash are uninterpreted functions of their byte arguments (ideal-checksum assumption); CRC-32 additionally gets single-byte-error axiom instances"
BLOOM = "above the bloom_filter package the filter is an abstract set (Contains(q) = q was added or arbitrary); the real bit operations are checked in VerifC11_BloomNoFalseNegative"
JSON = "encoding/json is a stub: Marshal gives an opaque token; Unmarshal of exactly that token merges the value into the destination field by field according to the struct tags (unexported, \"-\", omitempty-and-empty and name-clashing fields do not reach the text and leave the destination untouched); any other text is a syntax error"
RAND = "math/rand draws are nondeterministic; skiplist tower height bounded as stated"
LOG = "fmt.Print*/log output: empty bodies"
TIERA = "Tier A: goroutines of the target are not started (background flush/compaction loops do not run); locks are tracked for state only"


P1 = {"preempt": 1}
P2 = {"preempt": 2}

check("C01", "reads return the latest write through every layer", [
    ob("VerifC01_ReadLatest", "pkg/engine", "programs of put/delete/flush/reopen through EngineFacade, then Get of a symbolic probe key vs. a last-write-wins model",
       "<=4 steps, 2 symbolic 1-byte keys, 1-byte values, MemTableSize in {1 byte, default}, <=2 flushes, <=2 reopens, tower height 1",
       "<=5 steps, 3 keys (1,1,2 bytes)"),
    ob("VerifC01_ReadLatestTx", "pkg/engine", "the same with read-write transactions (commit/rollback, 1-3 ops) and 2-entry batches in the mix",
       "<=2 steps over put/tx/batch/flush, 2 keys", "<=3 steps"),
    ob("VerifC01_ValueShapes", "pkg/engine", "empty, nil, 1- and 2-byte values through memtable, flush and reopen read back as found, also when the put follows a delete of the key",
       "<=3 steps over put(4 value shapes)/delete/flush/reopen, 2 keys", "<=4 steps"),
    ob("VerifC01_LargeValues", "pkg/engine", "values at the log's fragmenting boundary (+-1) and a 64 KiB value, mixed with small puts, flush and reopen: each key reads back exactly its latest put",
       "<=2 steps, 2 keys, contents concrete pattern with symbolic first/last byte", "<=3 steps", q={"budget_s": 300}),
    ob("VerifC01_ReadFromTables", "pkg/engine", "programs of put+flush / delete+flush / retire-flushed-logs+reopen steps: reads are served by the SSTables and their load order, not by replayed memtables",
       "2..5 steps, 2 keys", "2..7 steps", q={"budget_s": 400}),
    ob("VerifC01_StorageProgram", "pkg/engine/storage", "storage.Manager level: put/delete/flush/reopen programs, Get vs. model",
       "<=4 steps, 2 keys"),
    ob("VerifC02_CleanCloseReopen", "pkg/engine", "all three log sync modes; programs of small puts, deletes, a put at a log-fragment boundary (+-1), batches of 2/3 x 30 KiB (below/above the 64 KiB log buffer); clean close; reopen: state equals the pre-close state",
       "<=2 steps, 3 keys", "<=3 steps", q={"budget_s": 300}, t={"budget_s": 900}),
], [SIMFS, CLOCK, HASH, BLOOM, JSON, RAND, LOG, TIERA], ["keys > 2 bytes, values > 2 bytes except where a bulk value is stated", "compaction inside the program (C12)", "programs longer than the stated step bound"])

check("C02", "acknowledged writes survive a crash; recovery yields a history prefix", [
    ob("VerifC02_CrashPrefix", "pkg/engine/storage", "puts with synchronous logging, the process dies at any file-system step (both crash models), reopen: recovered state is a prefix containing every acknowledged write",
       "<=2 puts to distinct keys, crash at every simfs operation, torn in-flight write (every length <=24 bytes), process-death and power-loss models"),
    ob("VerifC02_CrashDuringMaintenance", "pkg/engine", "history put K1; flush (log rotation, SSTable write+rename); overwrite K0; [delete K1] on a database holding K0, synchronous logging; the process dies at any file-system step (both crash models, torn writes); recovered state = state after a prefix containing every acknowledged write; then a write, clean close and reopen",
       "4-step history, memtable 1 B or default, every crash point", q={"budget_s": 500}),
    ob("VerifC02_CleanCloseReopen", "pkg/engine", "all three log sync modes; programs of small puts, deletes, a put at a log-fragment boundary (+-1), batches of 2/3 x 30 KiB (below/above the 64 KiB log buffer); clean close; reopen: state equals the pre-close state",
       "<=2 steps, 3 keys", "<=3 steps", q={"budget_s": 300}, t={"budget_s": 900}),
    ob("VerifC10_DamagedFragmentedTail", "pkg/engine/storage", "log ending in an entry fragmented over three records (33 KB value), cut at every record boundary +-1, behind a header, inside a record: open succeeds, the earlier entry recovered, the large one only if complete and unaltered; then another fragmented entry and a small one written, close, reopen: both there unaltered, the cut entry not back with fabricated bytes",
       "4 record boundaries x 5 cut offsets"),
    ob("VerifC03_CrashInCommit", "pkg/engine", "commit of 2-3 puts, the process dies at any file-system step of the commit (both crash models, torn in-flight write): after recovery all keys of the transaction or none; an acknowledged commit completely. Shapes: small values; values filling two log records completely (batch at the log buffer's capacity); a 40 KB transaction behind a 30 KB write still pending in the log buffer (sync modes none/batch: all-or-nothing only, survival of the acknowledged commit is not promised there)",
       "2-3 keys; crash at every simfs operation inside begin..commit; torn lengths: every length <=24 bytes else 8 representatives; record-filling values with d in 0..1; pending-buffer shape with sync mode none or batch", q={"budget_s": 300}),
], [SIMFS, CLOCK, HASH, BLOOM, RAND, LOG, TIERA, "crash counterexamples are replayed natively by materialising the post-crash directory image and running the native recovery on it"],
   ["directory-entry durability", "media errors"])

check("C03", "transactions are all-or-nothing", [
    ob("VerifC03_TxSequential", "pkg/transaction", "symbolic transaction body, commit/rollback, caller buffers overwritten after each call; store equals model; lock released; closed after finish",
       "<=3 ops over 2 keys, optional pre-existing key, buffer reuse on/off"),
    ob("VerifC03_FailedCommitNoTrace", "pkg/engine", "a commit that fails because one value does not fit a log record (symbolic position, size within [-20,+1] of the limit) leaves no trace: not for plain reads, not for a later read-only or read-write transaction (which commits nothing of it), not after a later write, close and reopen",
       "3-entry transaction, one oversized entry at position 0..2; later transaction read-only or read-write", reach=("committed", "failed")),
    ob("VerifC03_CrashInCommit", "pkg/engine", "commit of 2-3 puts, the process dies at any file-system step of the commit (both crash models, torn in-flight write): after recovery all keys of the transaction or none; an acknowledged commit completely. Shapes: small values; values filling two log records completely (batch at the log buffer's capacity); a 40 KB transaction behind a 30 KB write still pending in the log buffer (sync modes none/batch: all-or-nothing only, survival of the acknowledged commit is not promised there)",
       "2-3 keys; crash at every simfs operation inside begin..commit; torn lengths: every length <=24 bytes else 8 representatives; record-filling values with d in 0..1; pending-buffer shape with sync mode none or batch", q={"budget_s": 300}),
    ob("VerifC03_CrashInLargeCommit", "pkg/engine", "commit of a transaction larger than the log buffer (quick: 3 x 30 KB) or larger than 1 MiB (thorough: 36 x 30 KB, above every internal budget of the write path), the process dies at any file-system step of the commit (both crash models): all keys or none after recovery; an acknowledged commit completely",
       "3 puts of 30 000 bytes; every crash point, torn lengths: 8 representatives", "36 puts of 30 000 bytes (1.08 MB)", q={"budget_s": 300, "stepcap": 400000000}, t={"budget_s": 1500, "stepcap": 400000000}, no_validate=True),
    ob("VerifC03_CommitVsReader", "pkg/engine", "a committing transaction (2 keys) vs. a reader doing two plain gets in either order or inside a read-only transaction: first read new => second read new; a read-only transaction sees one state",
       "2 threads, preemption bound 1", "preemption bound 2", q=P1, t=P2, no_validate=True),
    ob("VerifC17_TxCallSequences", "pkg/transaction", "every call sequence over one read-write or read-only transaction (Get/Put/Delete/scan/Commit/Rollback): lock held in the right mode until the first finish and free afterwards, every storage access under the lock, finish at most once, closed error and no effect afterwards, read-only refuses writes, own writes read back, exactly one last-op-wins batch at commit",
       "<=4 calls, 2 keys", "<=5 calls"),
], [SIMFS, CLOCK, HASH, BLOOM, RAND, LOG, TIERA], [])

check("C04", "transactions are serializable with respect to each other", [
    ob("VerifC04_TwoTxSerializable", "pkg/engine", "two concurrent transactions (read-only: read both keys; read-write: read, put/delete, read back, commit/rollback) on the real EngineFacade: every explored interleaving's reads and final state equal one of the two serial orders, consistent with real time",
       "2 transactions x 18 shapes each over 2 keys, symbolic values, preemption bound 1", "preemption bound 2", q=P1, t={"preempt": 2, "budget_s": 1200}, no_validate=True),
    ob("VerifC04_ReadOnlyTxDuringFlush", "pkg/engine", "two keys written into an engine with a 1-byte memtable (each write seals a table for the flusher); a read-only transaction reads both keys twice, or scans, while the flush of those tables runs and nothing is written: it reads one and the same committed state wherever the tables are (sealed in memory, being written out, registered as SSTable)",
       "2 keys, gets or scan, 2 threads, preemption bound 1", "preemption bound 2", q={"preempt": 1, "budget_s": 300}, t={"preempt": 2, "budget_s": 900}, no_validate=True),
    ob("VerifC04_ReaderEndedByAnotherGoroutine", "pkg/engine", "a transaction that has read a key reads it again while another goroutine ends it (what the stale-transaction sweep, connection cleanup and shutdown do) and a waiting writer overwrites the key and commits: the second read fails or returns what the first returned",
       "read-only or read-write reader, 1 key, symbolic values, 2 threads, preemption bound 1", "preemption bound 2", q=P1, t={"preempt": 2, "budget_s": 600}, no_validate=True),
    ob("VerifC03_FailedCommitNoTrace", "pkg/engine", "isolation from a transaction that never committed: after a commit that failed, a later read-only or read-write transaction sees none of its writes and commits none of them",
       "3-entry transaction, one oversized entry at position 0..2; later transaction read-only or read-write", reach=("committed", "failed")),
    ob("VerifC17_TxCallSequences", "pkg/transaction", "lock discipline of one transaction: isolation lock held in the right mode from begin to the first finish, every storage access under it, released exactly once; own writes read back; nothing reaches storage before commit",
       "<=4 calls, 2 keys", "<=5 calls"),
], [SIMFS, CLOCK, HASH, BLOOM, JSON, RAND, LOG, "Tier B: schedules enumerated exhaustively up to the preemption bound; data symbolic in every schedule"], ["more than 2 concurrent transactions", "writes issued outside transactions (excluded by the property)"])

check("C05", "scans: exactly the live keys, once, in order, within bounds", [
    ob("VerifC05_MergeNewestWins", "pkg/common/iterator/composite", "HierarchicalIterator over two sorted sources with tombstones: SeekToFirst/Next*, Seek(t)", "<=2 keys per source, 1-byte keys"),
    ob("VerifC05_BoundedExact", "pkg/common/iterator/bounded", "BoundedIterator with optional symbolic bounds: iteration, Seek(t), SeekToLast", "<=3 keys"),
    ob("VerifC05_FilteredExact", "pkg/common/iterator/filtered", "prefix/suffix filtered iteration incl. Seek/SeekToLast", "<=3 two-byte keys"),
    ob("VerifC05_MemtableAdapter", "pkg/memtable", "IteratorAdapter over a memtable holding several versions per key: SeekToLast / Seek(t) land on the newest version of the right key; Seek(t) on an iterator that was used before (0-3 steps from the start) lands like a fresh Seek; forward iteration yields every version, keys ascending, newer first",
       "<=3 puts/deletes over 2 keys"),
    ob("VerifC05_MemtableScanSurvivesWrites", "pkg/memtable", "a scan over the active memtable interleaved operation by operation with another client's writes (anywhere relative to the scan position): strictly ascending, duplicate-free, yields every entry that existed before it started",
       "<=3 pre-existing entries, <=2 interleaved writes at any of the scan's steps"),
    ob("VerifC05_TxScanOverlay", "pkg/engine", "committed state (each key absent / in the memtable / flushed) + an open read-write transaction with 0-2 buffered puts/deletes: full scan, range scan, Seek(t) and SeekToLast inside the transaction = live keys with the transaction's writes overlaid, once each, ascending, latest values",
       "2 keys", "3 keys", q={"budget_s": 300}, t={"budget_s": 900}),
    ob("VerifC11_SeekAcrossBlocks", "pkg/sstable", "the SSTable iterator under a range scan's lower bound: Seek(t) on a table of two data blocks lands on the smallest key >= t (also when t falls between the blocks), Next* yields the rest once, in order", "2 blocks", q={"budget_s": 300}),
    ob("VerifC05_ScanDuringFlush", "pkg/engine/storage", "a full or range scan (created and run to its end) racing the flush of sealed memtables (the body of the background flush goroutine) on an engine with a 1-byte memtable, after two puts and optionally an overwrite/delete (thorough: part of the data already in SSTables; a concurrent writer of another key): wherever the tables are when the scan is created (sealed in memory, being written out, registered as SSTable) it yields exactly the live keys that existed before it started, once, ascending, latest values",
       "2 threads, 3 write shapes x {full, range}, concrete keys, symbolic values, preemption bound 1", "3 threads (writer of another key), data partly flushed before, preemption bound 1", q={"preempt": 1, "budget_s": 300}, t={"preempt": 1, "budget_s": 1200}, no_validate=True),
    ob("VerifC11_ManyBlocks", "pkg/sstable", "a table of 18 (thorough 34) data blocks, one block-sized value each, so that the index block spans more than one restart interval: Seek(t) for a symbolic target on a fresh iterator or on one that was used before (a Seek past the end, or onto the last key) lands on the first key >= t, Next* yields the rest once, in order, with values and sequence numbers; Get(q) for a symbolic key finds exactly the written keys",
       "18 blocks of 16 KiB, 3 modes (seek+iterate, re-seek on a used iterator, point lookup), one-byte targets", "34 blocks", q={"budget_s": 500}, t={"budget_s": 1500}),
    ob("VerifC05_EngineScan", "pkg/engine/storage", "storage.Manager full and range scans after a symbolic program", "<=3 steps, 3 keys, MemTableSize in {1, default}", "<=4 steps", t={}),
], [SIMFS, CLOCK, HASH, BLOOM, RAND, LOG, TIERA], [])

check("C06", "concurrent gets, puts and deletes are linearizable", [
    ob("VerifC06_ReadsDuringFlush", "pkg/engine/storage", "writer (overwrite or delete) || reader (two gets) || the real background flush goroutine (|| an explicit flush in thorough) with a 1-byte memtable: each read returns the old or the new state, reads do not go back in time, a read after the write sees it, the write is acknowledged and in effect at the end",
       "3 threads, preemption bound 1, background flush loop started as a thread", "4 threads (explicit flush), preemption bound 1", q={"preempt": 1, "background": ["backgroundFlush"], "budget_s": 400}, t={"preempt": 1, "background": ["backgroundFlush"], "budget_s": 1200}, no_validate=True),
    ob("VerifC06_ErrorMeansNoEffect", "pkg/engine/storage", "1-byte memtable, table budget 1-2, no flusher keeping up: sequences of puts/deletes; a reported success took effect, a reported error took none",
       "<=4 operations on one key"),
    ob("VerifC06_PutVsFlush", "pkg/engine/storage", "one client Put racing FlushMemTables (MemTableSize=1), then a sequential Get: success => visible, error => no effect; data races on the way are reported",
       "2 threads, preemption bound 1", "preemption bound 2", q=P1, t=P2, no_validate=True),
    ob("VerifC06_TwoWriters", "pkg/engine/storage", "two clients write the same key concurrently (put of its own value, or delete, each) while a third reads it; 1-byte or default memtable: some total order of the three operations consistent with the recorded call/return order explains the read and the final state, both writes are acknowledged, and after a clean close and reopen the key reads as before (the log's order of the two writes is the order clients saw)",
       "3 threads, key absent or present before, 4 write shapes, preemption bound 1", "the same with the background flush loop running as a fourth thread", q={"preempt": 1, "budget_s": 400}, t={"preempt": 1, "background": ["backgroundFlush"], "budget_s": 1200}, no_validate=True),
    ob("VerifC06_ReadsDuringCompaction", "pkg/engine", "a database restarted on two flushed level-0 tables with the logs retired (every read is served by tables); a compaction cycle (triggered or range) runs while a client reads both keys plainly or by a scan: every read returns the latest write of its key, whatever the interleaving with the cycle's file removals and table-list reload",
       "2 keys (overwrite or delete of the first), 2 cycle kinds x 2 reader kinds, 2 threads, preemption bound 1", "preemption bound 2", q={"preempt": 1, "budget_s": 500}, t={"preempt": 2, "budget_s": 1200}, no_validate=True),
], [SIMFS, CLOCK, HASH, BLOOM, RAND, LOG, "Tier B: schedules enumerated exhaustively up to the preemption bound; data symbolic in every schedule"], [">2 clients", "the ticker-driven compaction worker loop (its body, one compaction cycle, is what runs against the reader)", "Close"])

check("C07", "no race, crash or hang under concurrent use", [
    ob("VerifC07_Pairs", "pkg/engine", "every unordered pair of fourteen EngineFacade entry points from two goroutines: no data race, panic, deadlock; both return",
       "105 pairs of 14 entry points (put, get, delete, scan, tx, flush, stats, batch, is-deleted, read-only tx, tx with a refused commit, compaction, range scan + compaction stats, range compaction), preemption bound 1", "preemption bound 2", q=P1, t={"preempt": 2, "budget_s": 1200}, no_validate=True, termination=True),
    ob("VerifC07_PairsOnAgedEngine", "pkg/engine", "the same pairs on an engine with a history: two flushed level-0 tables, one completed compaction cycle with output files, with or without a restart on those files (state that only exists after maintenance is shared too)",
       "105 pairs x {running, restarted}, preemption bound 0 (the race detector is happens-before based and does not need a preemption to see an unsynchronised pair)", "preemption bound 1", q={"preempt": 0, "budget_s": 500}, t={"preempt": 1, "budget_s": 1200}, no_validate=True, termination=True),
    ob("VerifC07_RegistryPairs", "pkg/transaction", "every unordered pair of seven transaction-registry entry points (begin+use+finish, begin+abandon, use of an existing handle, Remove, CleanupConnection, the stale-transaction sweep, GracefulShutdown - not with itself) from two goroutines of the same or different connections, on a registry holding one transaction: no data race, panic, deadlock; both return",
       "27 pairs x {same, different connection}, preemption bound 0 (begin deadlines fire or not)", "preemption bound 1 (818 k schedules)", q={"preempt": 0, "budget_s": 300}, t={"preempt": 1, "budget_s": 900}, no_validate=True, termination=True),
    ob("VerifC07_StatsPairs", "pkg/stats", "every unordered pair of eight statistics entry points (operation/latency/error/byte/flush counters, GetStats, GetStatsFiltered, recovery stats) from two goroutines on the same or different operation types, lazily created counters present or not: no data race, no panic; both return",
       "36 pairs x 4 variants, preemption bound 1", "preemption bound 2", q=P1, t={"preempt": 2, "budget_s": 600}, no_validate=True, termination=True),
    ob("VerifC07_WritersVsBackgroundFlush", "pkg/engine", "two clients writing twice each into an engine with a 1-byte memtable while the real background flush goroutine runs as a third thread (explicit flush as a fourth in thorough): no race/panic/deadlock, every call returns, last acknowledged writes readable",
       "3 threads, preemption bound 1, background flush loop started as a thread", "4 threads", q={"preempt": 1, "background": ["backgroundFlush"], "budget_s": 500}, t={"preempt": 1, "background": ["backgroundFlush"], "budget_s": 1200}, no_validate=True, termination=True),
    ob("VerifC07_CloseWithBackgroundFlush", "pkg/engine/storage", "one client writes into an engine with a 1-byte memtable (every write hands a table to the background flush goroutine, which runs as a thread) and then closes it, with nothing but the engine's own background flush in flight: no race/panic/deadlock, Close returns, and the database reopens to its pre-close state",
       "<=2 puts/deletes over 2 keys, then Close; 2 threads, preemption bound 1, background flush loop started as a thread", "<=3 operations, preemption bound 2", q={"preempt": 1, "background": ["backgroundFlush"], "budget_s": 300}, t={"preempt": 2, "background": ["backgroundFlush"], "budget_s": 900}, no_validate=True, termination=True),
    ob("VerifC07_TombstoneTracker", "pkg/compaction", "TombstoneTracker.AddTombstone || ShouldKeepTombstone", "2 threads, preemption bound 1", q=P1, no_validate=True),
], [SIMFS, CLOCK, HASH, BLOOM, RAND, LOG, "Tier B: vector-clock race detector over the interpreter's memory cells; schedules up to the preemption bound"], ["Close concurrent with other calls", "GracefulShutdown of the registry concurrent with itself (a second shutdown panics with close of closed channel, sequentially too; treated like Close)", "the compaction file tracker (all six methods take its one mutex; read, not encoded)", ">2 simultaneous calls"])

check("C08", "sequence numbers strictly increase", [
    ob("VerifC08_SeqMonotone", "pkg/engine/storage", "programs of put / 2-entry batch / empty batch / flush / reopen; log read back: first sequence per write strictly increasing; reported last sequence never decreases and ends at the number of the last write",
       "<=4 steps over put / 2-entry batch / empty batch / flush / reopen / fragmented (33 KB) put, 1 key"),
    ob("VerifC08_SeqAcrossDamagedRecovery", "pkg/engine/storage", "log tail cut at every byte offset, reopen + write, close, reopen + write: every acknowledged write above all earlier ones, reported last sequence never decreases",
       "<=2 entries before the cut, every cut offset, two recoveries"),
    ob("VerifC10_DamagedFragmentedTail", "pkg/engine/storage", "log ending in an entry fragmented over three records (33 KB value), cut at every record boundary +-1, behind a header, inside a record: open succeeds, the earlier entry recovered, the large one only if complete and unaltered; then another fragmented entry and a small one written, close, reopen: both there unaltered, the cut entry not back with fabricated bytes",
       "4 record boundaries x 5 cut offsets"),
], [SIMFS, CLOCK, HASH, BLOOM, RAND, LOG, TIERA], [])

check("C09", "the log replays exactly what was appended", [
    ob("VerifC09_RoundTripSmall", "pkg/wal", "<=2 appends with key/value lengths 0-2, all sync modes; replay equals appended", "<=2 entries, lengths 0..2"),
    ob("VerifC09_RoundTripBoundaries", "pkg/wal", "one put whose payload sits within +-2 bytes of the 32 KiB record limit (single record vs. fragments), followed by a small put", "value length MaxRecordSize-17-kl+[-2,2]"),
    ob("VerifC09_FragmentBoundaries", "pkg/wal", "one large put within +-1 byte of every fragmenting boundary (spill-over of exactly one / two full records; key filling the first fragment; key spilling a full record) followed by a small put",
       "4 shapes x 3 offsets, contents concrete pattern with symbolic probe bytes at both ends and at the chunk seams"),
    ob("VerifC09_BatchBeyondBuffer", "pkg/wal", "0-2 buffered appends, then a batch below/above the 64 KiB log buffer, then an append; all sync modes; replay after close",
       "batch of 2 or 3 entries of 30 KiB (sparse symbolic), 0..2 pending appends"),
    ob("VerifC09_Program", "pkg/wal", "programs of append/batch/close+reuse/rotate; GetEntriesFrom(symbolic s) and directory replay equal the appended operations",
       "<=3 steps", "<=4 steps"),
], [SIMFS, CLOCK, HASH, LOG, TIERA], ["entries > 33 KiB other than the boundary window", "32-bit int platforms"])

check("C10", "log damage is contained", [
    ob("VerifC10_Truncate", "pkg/wal", "log of <=3 entries cut at every byte offset: replay succeeds, delivers every entry that ends before the cut, nothing that was not appended", "<=3 small entries, every offset"),
    ob("VerifC10_FlipByte", "pkg/wal", "one byte at every position replaced by a symbolic different value", "<=2 small entries, every position, every value", q={"budget_s": 300}),
    ob("VerifC10_DamageThenWriteThenRecover", "pkg/engine/storage", "storage.Manager on a log cut at every offset or with one byte altered: open succeeds, intact prefix recovered; a write acknowledged after the recovery and the recovered operations survive a clean close and a second open",
       "<=2 small entries, every cut offset, every position x every replacement value"),
    ob("VerifC10_DamagedFragmentedTail", "pkg/engine/storage", "log ending in an entry fragmented over three records (33 KB value), cut at every record boundary +-1, behind a header, inside a record: open succeeds, the earlier entry recovered, the large one only if complete and unaltered; then another fragmented entry and a small one written, close, reopen: both there unaltered, the cut entry not back with fabricated bytes",
       "4 record boundaries x 5 cut offsets"),
    ob("VerifC10_FlipHeaderOfFragment", "pkg/engine/storage", "one byte of the 7-byte header (checksum, length, type) of the FIRST, MIDDLE or LAST record of a fragmented entry (33 KB value) replaced by a symbolic different value: open succeeds, no panic, the entry before it recovered, the fragmented entry exact or absent, the log files are not set aside",
       "3 records x 7 header bytes; every replacement value, except length bytes: 4 representatives", "every replacement value of every header byte", q={"budget_s": 300}, t={"budget_s": 1200}),
    ob("VerifC10_FlipTypeOfFragmentCraftedValue", "pkg/engine/storage", "the record-type byte (not under the record checksum) of the LAST record of a fragmented entry replaced by a symbolic different value, while the part of the user's value carried by that record starts with 14 symbolic bytes (the solver may shape them like a complete log entry): open succeeds, the earlier entry is recovered unaltered, the fragmented entry is exact or absent, no key that was never written exists",
       "33 KB value, 14 free value bytes at the start of the last record (crafted key length <= 2), every replacement value of the type byte"),
], [SIMFS, CLOCK, HASH, LOG, TIERA, "CRC-32 single-byte-error axiom instances are justified by lemmas/crc32_step.smt2 (step injective in state and in byte; discharged on every run) plus a three-line induction over the stream on paper"],
   ["multi-byte damage", "checksum collisions other than single-byte errors (ideal-checksum assumption)"], lemmas=["crc32_step"])

check("C11", "an SSTable reads back exactly what was written", [
    ob("VerifC11_RoundTripSmall", "pkg/sstable", "write <=3 ascending entries (value / empty value / deletion marker, arbitrary sequence numbers); iterate, Seek+Next*, SeekToLast, Get(symbolic q)",
       "<=3 entries, 1-byte keys", "<=4 entries, 1-2-byte keys"),
    ob("VerifC11_SeekRestartInterval", "pkg/sstable", "17-18 keys (two restart intervals): Seek(t) lands on the first key >= t, iteration yields the rest once", "17..18 one-byte keys"),
    ob("VerifC11_GetAcrossBlocks", "pkg/sstable", "two data blocks (64 KiB value closes the first): point lookups of every written key and of an absent key", "2 blocks, <=2 small entries per block", q={"budget_s": 300}),
    ob("VerifC11_SeekAcrossBlocks", "pkg/sstable", "two data blocks: Seek(t) + Next*", "2 blocks", q={"budget_s": 300}),
    ob("VerifC11_ManyBlocks", "pkg/sstable", "a table of 18 (thorough 34) data blocks, one block-sized value each, so that the index block spans more than one restart interval: Seek(t) for a symbolic target on a fresh iterator or on one that was used before (a Seek past the end, or onto the last key) lands on the first key >= t, Next* yields the rest once, in order, with values and sequence numbers; Get(q) for a symbolic key finds exactly the written keys",
       "18 blocks of 16 KiB, 3 modes (seek+iterate, re-seek on a used iterator, point lookup), one-byte targets", "34 blocks", q={"budget_s": 500}, t={"budget_s": 1500}),
    ob("VerifC11_LongKeysSharedPrefix", "pkg/sstable", "three entries with keys of 9, 10 and 17 free symbolic bytes (ascending): consecutive keys may share any prefix - none, a few bytes, whole 8-byte words - and differ anywhere; iteration yields exactly the three keys and values, Seek(k_i) lands on k_i, Get finds each",
       "3 entries, key lengths 9/10/17, every key byte symbolic"),
    ob("VerifC11_FlipOneByte", "pkg/sstable", "one byte at any position of a finished table (data block, restart array, trailer, bloom section, index block, footer) replaced by a symbolic different value: open/iterate/seek/get fail or yield only written entries, ascending; no panic",
       "tables of 1-2 entries; every file position except the interior of the bloom bit array (5 representatives); every replacement value", "tables of 1-3 entries", q={"budget_s": 400}, t={"budget_s": 900}),
    ob("VerifC11_BloomNoFalseNegative", "pkg/bloom_filter", "real Add/Contains/SaveToFile/LoadBloomFilter on a 20-bit filter: no false negative", "<=2 keys, 20 bits, 7 hash functions"),
], [SIMFS, CLOCK, HASH, BLOOM, LOG, TIERA], ["keys > 64 KiB (uint16 length field)", "more than 34 data blocks; tables whose blocks each hold many entries beyond the two-restart-interval harness (a seeded change that needs 32 blocks of ~64 entries is not reported, DESIGN 12)", "multi-byte damage"])

check("C12", "compaction preserves content; deleted keys stay deleted", [
    ob("VerifC12_CompactPreservesView", "pkg/compaction", "2-3 real SSTables with symbolic levels and tombstone placement, one compaction cycle, merged view before = after", "2-3 files, 2 keys, levels 0-1, file numbering with or against creation order, values symbolic 1-byte, or all empty with 2 files (12 960 paths)", "all-empty values also with 3 files", q={"budget_s": 700}, t={"budget_s": 1500}),
    ob("VerifC12_CompactionInWorkload", "pkg/engine", "put+flush / delete+flush / triggered compaction / retire-flushed-logs+reopen steps on an engine with a level-0 trigger of 2: after every step and at the end each key reads as its latest write says, also from the compacted files after a reopen with the old logs gone",
       "2..4 steps, writes on 1 of 2 keys, probe over both; database fresh or aged (both keys already in level 2)", "2..5 steps, writes on both keys", q={"budget_s": 500}, t={"budget_s": 1200}),
    ob("VerifC12_RangeCompaction", "pkg/engine", "an older generation of a symbolic subset of 3 keys sits 1 (thorough 1-2) levels down; a newer generation (1-2 puts/deletes) is flushed into one level-0 table; CompactRange over a symbolic key range [lo,hi] (thorough: 1-2 such rounds): every key reads as its latest write says in the running engine and after the logs are retired and the database is reopened on the tables alone",
       "7 subsets x 42 write shapes x 6 ranges, 1 round, depth 1", "depth 1-2, 1-2 rounds", q={"budget_s": 500}, t={"budget_s": 1500}),
    ob("VerifC12_CyclesPreserveView", "pkg/compaction", "one compaction coordinator through several cycles; before each cycle two new level-0 tables (put/delete of one of two keys each) are written with the real writer; after each cycle the directory's merged newest-wins view equals the view before it and the latest write of every key; every table sorted without duplicate keys (later cycles meet earlier outputs and whatever the coordinator/strategy keep between cycles)",
       "3 cycles x 9 table shapes (729 programs), 2 keys", "4 cycles", q={"budget_s": 500}, t={"budget_s": 1500}),
    ob("VerifC12_RepeatedCompactions", "pkg/engine", "several compaction cycles in one engine lifetime (level-0 trigger 2): each round flushes two level-0 tables (both keys / two versions of the first / two versions of the second; puts and deletes) and triggers a compaction, so later cycles meet the outputs of earlier ones and whatever the compaction code keeps from cycle to cycle; optional restart on the tables alone after one round; after every round and after a final retire-logs+reopen every key reads as its latest write says",
       "3 rounds x 6 shapes, restart after round 0..2 (648 programs), 2 keys", "4 rounds", q={"budget_s": 500}, t={"budget_s": 1500}),
    ob("VerifC12_MarkerOutlivesUnrelatedCompaction", "pkg/engine", "both keys (or only the one that gets deleted) two levels down; one is deleted and its marker compacted into level 1; optional restart on the tables alone; then one or two rounds of tables touching only the other key are flushed and compacted (rewriting the level-1 table that holds the marker): the deleted key stays deleted while its old version exists further down, in the running engine and after retire-logs+reopen",
       "2 keys, deleted key 0/1, deep table holding both keys or only the deleted one, restart yes/no, 1-2 later rounds (16 programs)"),
    ob("VerifC12_CrashDuringCompaction", "pkg/engine", "2 (thorough 2-3) flushed level-0 tables with successive versions of a key (value / overwrite / delete) and a second key; the process dies at any file-system step of a triggered compaction cycle (both crash models); logs retired; reopened on whatever table files the crash left: every key reads as its latest write says",
       "2 tables, every crash point of the cycle, every iteration order of the maps kevo's compaction code walks (input files by level, obsolete files: 2-3 entries, all permutations)", "2-3 tables", q={"budget_s": 600, "map_orders": True}, t={"budget_s": 1500, "map_orders": True}),
], [SIMFS, CLOCK, HASH, BLOOM, JSON, LOG, TIERA], ["more than 3 levels", "size-ratio triggered compactions between deep levels (selectOverlappingCompaction)", "more than 3 input files in the directory-level harness", "the tombstone tracker's time-based retention (the clock does not advance 24 h in any harness)"])

check("C13", "a replica applies the primary's log in order, exactly once", [
    ob("VerifC13_ApplyStepInductive", "pkg/replication", "one step of WALBatchApplier.ApplyEntries from an arbitrary cursor with an arbitrary batch and an apply function failing at a symbolic index", "<=3 entries per batch"),
    ob("VerifC13_DeliverySchedules", "pkg/replication", "a real Replica fed stream messages that are arbitrary sub-ranges of the primary log (duplicates, reordering, gaps, overlaps), optionally compressed, with one transient apply failure: applied history is always a prefix of the log, reported sequence monotone and never ahead, gaps answered by a retransmission request",
       "log of <=2 operations, <=2 messages, codecs NONE/ZSTD, failure at call 0..2", "log of <=3 operations, <=3 messages, codecs NONE/ZSTD/SNAPPY", t={"budget_s": 900}),
    ob("VerifC13_ReconnectResumes", "pkg/replication", "the replica's own state handlers (connecting, streaming, waiting, fsync, acknowledging, error/back-off) driven tick by tick against a scripted primary whose stream delivers, stalls or is reset, with one transient failure of the local apply at a symbolic call: applied history always a prefix in order, nothing twice; reported sequence monotone and never ahead; every new stream asks for the entry after the last applied",
       "log of 2 entries, 3 stream scripts (DD, DRD, RDD), apply failure at call 0..2 (0 = never), 8 ticks, every timer/receive interleaving at preemption bound 0 (967 k schedules)", "log of 3 entries, 10 scripts, 10 ticks (budget-capped)", q={"preempt": 0, "budget_s": 500}, t={"preempt": 0, "budget_s": 1200}, no_validate=True),
    ob("VerifC13_SerializeRoundTrip", "pkg/replication", "Deserialize(Serialize(e)) = e for put/delete/merge with key/value lengths 0-2 and arbitrary sequence numbers; a payload cut at any point is rejected or denotes the same operation",
       "key/value lengths 0..2, every cut position"),
], [LOG, TIERA, "compression codecs: opaque pair Decompress(Compress(x)) = x, anything without the codec's frame magic is invalid"], ["codec internals", "gRPC framing", "the replica's loop timing (sleep, back-off durations); gRPC status and metadata are engine stubs carrying code and message only; data races inside the replica's receive goroutines (observed, not reproducible natively with an instant fake stream, not part of C13)"])

check("C14", "a connected replica converges (reduced form: data path under an ideal link)", [
    ob("VerifC14_DataPathConverges", "pkg/replication", "primary program (puts, deletes, a 2-entry batch, a flush) with a replica session joining before/between/after; real initial-send, push, poll and resend paths into a recording stream; messages fed in order to a real Replica applying through EngineApplier into a second engine with acks; link drained; probe key reads equal on both sides",
       "<=2 primary steps, join point 0..n, <=3 poll rounds, 2 keys, replica MaxBatchSize default or 16 bytes, primary tuning: defaults / log sync mode none / batch budget 1 KB with 1.1 KB values", "<=3 primary steps, otherwise the same", q={"budget_s": 300}, t={"budget_s": 900}),
], [SIMFS, CLOCK, HASH, BLOOM, JSON, RAND, LOG, TIERA, "the link is ideal: every message the primary sends is delivered in order, retransmission requests are served at once"],
   ["the 'within bounded time' clause", "the replica's timer-driven state machine, reconnect and restart timing", "TCP/gRPC behaviour", "codec internals"])

check("C15", "replicas cannot stall or fail the primary (safety core)", [
    ob("VerifC15_StalledReplicaDoesNotBlockClients", "pkg/replication", "a replica whose stream Send never returns (optionally next to a healthy one); one client write meets it; a second client's read / write must still complete",
       "1-2 sessions, 2 client operations, preemption bound 1", q=P1, no_validate=True, reach=("probed",)),
    ob("VerifC15_PollVsWriteNoDeadlock", "pkg/replication", "a client write concurrent with the polling sender serving a healthy replica (what every tick of the stream loop calls), all three sync modes: both complete (compatible lock orders between the push path inside the log append and the poll path)",
       "2 threads, preemption bound 2", q=P2, no_validate=True, reach=("probed", "done")),
    ob("VerifC15_AckVsWriteNoDeadlock", "pkg/replication", "a client write concurrent with the processing of a replica's acknowledgement (session bookkeeping + the log retention check behind every acknowledgement, with an older log file present so that the check reaches the log), all three sync modes: both complete",
       "2 threads, preemption bound 2", q=P2, no_validate=True, reach=("probed", "done")),
    ob("VerifC15_HeartbeatVsWriteNoDeadlock", "pkg/replication", "the heartbeat sweep finding a replica dead (failing stream or silent beyond the timeout) concurrent with a client write and optionally an acknowledgement for that session: everything returns, the dead replica leaves the reported topology, the healthy one stays",
       "2-3 threads, preemption bound 1", "preemption bound 2", q=P1, t=P2, no_validate=True, reach=("probed", "done")),
    ob("VerifC15_StatusVsWriteNoDeadlock", "pkg/replication", "the primary's reporting calls (replication Manager.Status with its per-replica detail, GetNodeInfo as served by the node-information RPC) polled while a client writes, with zero or one healthy replica and all three sync modes: the write and the report both return (compatible lock orders between reporting and the write path's sync notification), the reported sequence is not ahead",
       "2 threads, 2 reporting calls x {0,1} replicas x 3 sync modes, preemption bound 2", q=P2, no_validate=True),
    ob("VerifC15_HeartbeatDropsSilentReplicas", "pkg/replication", "one step of the heartbeat monitor over two sessions with symbolic idle times and possibly failing streams: silent or failing replicas leave the reported topology, healthy ones stay and get a heartbeat",
       "2 sessions, idle times < 24 h kept 1 s away from the limits"),
    ob("VerifC15_FailingReplicaDoesNotFailWrites", "pkg/replication", "a replica whose stream fails on every send next to a healthy one: client writes succeed, the healthy replica is sent every write, the failing one is marked disconnected and not sent to again",
       "<=2 writes"),
], [SIMFS, CLOCK, HASH, BLOOM, RAND, LOG, "the gRPC stream is a harness fake whose Send records, fails, or never returns (vsym.BlockForever)", "Tier B scheduler for the stalled-stream obligation"],
   ["latency ('normal time') and any wall-clock bound: only 'completes at all' is decided", "TCP-level stalls, keepalive, gRPC flow control", "more than two replicas"])

check("C16", "a replica refuses client writes but keeps applying replicated ones", [
    ob("VerifC16_ReadOnlyRejects", "pkg/engine", "read-only EngineFacade: client mutators rejected with nothing changed and no lock left held, *Internal bypasses apply, flag kept", "5 mutator shapes + bypasses"),
    ob("VerifC16_ServiceRejectsOnReplica", "pkg/grpc/service", "remote Put / Delete / BatchWrite / read-write BeginTransaction+TxPut+TxDelete+commit / Compact (force or not) on a node whose engine is read-only: data unchanged, no marker key, plain writes fail, nothing left locked, Get and Scan still served, flag kept",
       "6 request shapes, preemption bound 0 (Begin's worker goroutine)", q={"preempt": 0}, no_validate=True),
    ob("VerifC16_NodeInfoTruthful", "pkg/grpc/service", "GetNodeInfo through the real replication.Manager and the service handler: role, primary address and read-only status truthful for standalone/primary/replica and both flag values, also after the flag changes; the reported status is the enforced one",
       "4 role configurations x 2 rounds x 2 flag values"),
    ob("VerifC16_ApplierVsClientWrite", "pkg/replication", "the replica's real apply path (replication.EngineApplier.Apply on the real EngineFacade in read-only mode; whichever engine entry points the applier finds and uses) applies one replicated put, delete or merge while a client tries a put, a delete of the replicated key or a read-write transaction and asks for the read-only status: the client write is refused, its key never appears, read-only is reported throughout, the replicated entry takes effect",
       "3 entry types x 3 client shapes, 2 threads, preemption bound 1", "preemption bound 2", q=P1, t=P2, no_validate=True),
    ob("VerifC16_ApplyVsClientWrite", "pkg/engine", "a replicated operation applied through PutInternal / DeleteInternal / ApplyBatchInternal concurrently with a client put / delete / batch / read-write transaction and a status query: the client write is refused, its key never appears, the replicated operation takes effect, read-only is reported throughout, no lock left held",
       "3 apply shapes x 4 client shapes, preemption bound 1", "preemption bound 2", q=P1, t=P2, no_validate=True),
], [SIMFS, CLOCK, HASH, BLOOM, JSON, LOG, TIERA, "entry points are hand-listed in the harnesses; the method sets of EngineFacade, interfaces.Engine and pb.KevoServiceServer are compared with the listed ones on every run, a new method is reported as not covered"],
   ["CompactRange / TriggerCompaction / FlushImMemTables on a replica (maintenance, not client data mutations)"], method_sets=[FACADE, ENGINE_IFACE, SERVICE])

check("C17", "every transaction ends and releases the database", [
    ob("VerifC17_BeginTimeoutNoLeak", "pkg/transaction", "RegistryImpl.Begin timing out while another transaction holds the lock: no transaction is left holding the lock unreachable", "preemption bound 1", "preemption bound 2", q=P1, t=P2, no_validate=True),
    ob("VerifC17_TxCallSequences", "pkg/transaction", "every call sequence over one read-write or read-only transaction (Get/Put/Delete/scan/Commit/Rollback): lock held in the right mode until the first finish and free afterwards, every storage access under the lock, finish at most once, closed error and no effect afterwards, read-only refuses writes, own writes read back, exactly one last-op-wins batch at commit",
       "<=4 calls, 2 keys", "<=5 calls"),
    ob("VerifC17_RegistryCleanup", "pkg/transaction", "registry with two transactions of two connections, symbolic ages and idle times: the periodic cleanup body / CleanupConnection rolls back and unregisters exactly the expired / disconnected ones",
       "2 read-only transactions, ages < 24 h, kept 2 s away from the limits (clock margin)"),
    ob("VerifC17_GracefulShutdown", "pkg/transaction", "registry holding one read-write transaction (with or without a buffered write) or two read-only ones is shut down: all rolled back, lock free, nothing reaches storage, handles gone, whenever the per-transaction rollback deadline fires",
       "1-2 transactions, preemption bound 1", q=P1, no_validate=True),
    ob("VerifC17_AbandonedTxIsReaped", "pkg/engine", "a transaction begun through the registry on the real EngineFacade and abandoned: after its idle limit the cleanup body / connection cleanup rolls it back, unregisters it and frees the database lock",
       "1 transaction (read-only or read-write, with or without a buffered write), preemption bound 1", q=P1, no_validate=True, reach=("done",)),
], [CLOCK, LOG, "Tier B scheduler; one-shot timers fire at a scheduler-chosen point"], ["clients holding two transactions at once (excluded by the property)"])

check("C19", "the network API behaves like the embedded API", [
    ob("VerifC19_PutGetDelete", "pkg/grpc/service", "service Put/Get/Delete handlers vs. embedded engine", "1 key"),
    ob("VerifC19_TxHandles", "pkg/grpc/service", "transaction handle lifecycle through the service handlers", "1 transaction", q=P1, no_validate=True),
    ob("VerifC19_ScanOptions", "pkg/grpc/service", "Scan / TxScan with a symbolic prefix, suffix, prefix+suffix, start/end range or nothing and limit 0..2 over three symbolic two-byte keys (memtable + SSTable, one possibly deleted): streamed result = embedded view under the documented filter",
       "3 keys, 1-byte filters, limit 0..2, preemption bound 0 (Begin's worker goroutine)", q={"preempt": 0}, no_validate=True),
    ob("VerifC19_BatchWriteLimits", "pkg/grpc/service", "BatchWrite with a valid batch or one violating a documented limit (empty key, 4097-byte key, unknown operation, a value above the value limit, 1001 operations) at a symbolic position: valid => effect of the embedded batch; rejected => error, no effect, database lock free, later Put and Scan complete",
       "2 operations (1001 for the size limit), 6 conditions x 2 positions; the value limit is the server's own field scaled down from 10 MiB to 8 bytes"),
], [SIMFS, CLOCK, HASH, BLOOM, JSON, LOG, "handlers are hand-listed; pb.KevoServiceServer's method set is compared with the listed handlers on every run"], ["wire encoding", "interceptors", "TLS", "GetStats, Compact (no embedded counterpart with observable data effect)"], method_sets=[SERVICE])

check("C20", "configuration is validated and persists", [
    ob("VerifC20_Validate", "pkg/config", "Config.Validate with every field symbolic (float64 ratio as an SMT FP term) equals the documented predicate", "all 25 fields symbolic (64-bit integers, strings empty/non-empty, float as IEEE-754 bit pattern incl. NaN/Inf)"),
    ob("VerifC20_SaveLoad", "pkg/config", "SaveManifest with every numeric setting symbolic, with or without an existing manifest: invalid => nothing written, existing manifest untouched, no temp file; valid => stored and every setting loaded back unchanged (zero values included)",
       "22 symbolic fields + sync mode; directories fixed", reach=("rejected", "stored")),
    ob("VerifC20_SaveCrashAtomic", "pkg/config", "process death / power loss at any file-system step of storing a new configuration over an old one: afterwards the manifest is the old or the complete new configuration",
       "every crash point incl. after the last step; torn write every length; both crash models"),
    ob("VerifC20_OpenWithStoredConfig", "pkg/engine", "database created with a non-default configuration; manifest intact / cut at every byte / garbage / invalid configuration / removed: intact => reopened with exactly the stored configuration and its data; cut, unreadable or invalid => open fails, creates no log/table file, does not overwrite the manifest; missing => defaults",
       "5 manifest conditions, every cut offset of the stored text"),
], [SIMFS, CLOCK, HASH, BLOOM, JSON, LOG, TIERA], ["the JSON text itself: number formatting/parsing, escaping, byte-exact layout (encoding/json is reflection-driven and not encoded; the stub models which fields reach the text and come back, per struct tags, and states the round trip of each stored field as identity)", "alterations of the stored text other than truncation"], method_sets=[CONFIG_FIELDS])

check("C18", "memtable ordered multi-version map", [
    ob("VerifC18_TableGetIterate", "pkg/memtable", "MemTable.Put/Delete/Get/NewIterator/SetImmutable: Get returns an entry of maximal sequence number (marker = found-but-deleted); iteration ascending by key, newer versions first, each entry once; an immutable table ignores writes",
       "<=2 operations, free 1-byte keys, arbitrary sequence numbers below wal.MaxSequenceNumber (ties, non-monotone), tower height <=2", "<=3 operations", q={"maxzeros": 1}, t={"maxzeros": 1}),
    ob("VerifC18_PoolNewestFirst", "pkg/memtable", "MemTablePool: writes spread over active and switched tables; Get returns the newest version", "<=4 steps over put/delete/switch, one key"),
    ob("VerifC18_ReaderVsInsert", "pkg/memtable", "one writer (MemTable.Put) vs. one reader (Get / full iteration / Seek(t)+Next*): reader terminates, sorted, sees everything inserted before it started, nothing never inserted, Seek never below its target",
       "<=2 pre-existing entries + 1 concurrent insert, reader's iterator created before or after the writer starts, preemption bound 1, tower height <=2", "preemption bound 2, tower height <=2", q={"preempt": 1, "maxzeros": 1}, t={"preempt": 2, "maxzeros": 1, "budget_s": 1200}, no_validate=True, termination=True),
    ob("VerifC18_FindHighestSeq", "pkg/memtable", "SkipList.Insert/Find: entry of highest sequence number wins, absent keys not found",
       "<=3 inserts, free 1-byte keys, arbitrary 64-bit sequence numbers, tower height <=2", "same, tower height <=3",
       q={"maxzeros": 1}, t={"maxzeros": 2}),
    ob("VerifC05_MemtableAdapter", "pkg/memtable", "IteratorAdapter over a memtable holding several versions per key: SeekToLast / Seek(t) land on the newest version of the right key; Seek(t) on an iterator that was used before (0-3 steps from the start) lands like a fresh Seek; forward iteration yields every version, keys ascending, newer first",
       "<=3 puts/deletes over 2 keys"),
], [RAND, TIERA], ["tower heights 4-12", "more than one concurrent writer (excluded by the property)"])

json.dump(C, open("/verif/checks.json", "w"), indent=1)
print("wrote", len(C), "checks")
