#!/bin/bash
# dev helper: apply a seeded patch inside a scratch worktree and run a check against that tree (never /repo).
# usage: dev/seedrun.sh <worktree> <patch.diff> <Cxx> [harness] [tier]
wt=$1; patch=$2; prop=$3; h=${4:-}; tier=${5:-quick}
cd $wt && git checkout -q -- . && git checkout -q --detach $(git -C /repo rev-parse HEAD) && git apply $patch || { echo "patch does not apply"; exit 2; }
cd /verif
if [ -n "$h" ]; then VERIF_REPO=$wt ./check $prop $tier -only $h; else VERIF_REPO=$wt ./check $prop $tier; fi
code=$?
cd $wt && git checkout -q -- .
echo "seedrun exit=$code"
