#!/bin/bash
# dev helper: confirm a seeded change in its scratch worktree, then store it under /verif/seeded/<id>/.
# usage: dev/seed_verify.sh <worktree> <name> <Cxx> <demo-pkg-dir> [extra test pkgs...]
wt=$1; name=$2; prop=$3; demodir=$4; shift 4
src=$wt/${SEEDDIR:-SEEDED}/$name; id=$prop-$name
export GOFLAGS=-mod=mod GOPROXY=off
cd $wt && git checkout -q -- . && git clean -fdq -e SEEDED -e SEEDED3 -e SEEDED4
demo=$(ls $src/*_test.go | head -1)
cp $demo $wt/$demodir/zz_seed_demo_test.go
tests=$(grep -o "^func Test[A-Za-z0-9_]*" $demo | sed 's/func //' | tr '\n' '|' | sed 's/|$//')
echo "--- demo on the clean tree (must pass): $tests"
go test -count=1 -run "^($tests)\$" ./$demodir/ > /tmp/sv_clean_$name.log 2>&1; c1=$?; tail -3 /tmp/sv_clean_$name.log
git apply $src/patch.diff || { echo "PATCH DOES NOT APPLY"; exit 2; }
echo "--- build with the change"; go build ./... ; b=$?
echo "--- demo with the change (must fail)"
go test -count=1 -run "^($tests)\$" ./$demodir/ > /tmp/sv_mut_$name.log 2>&1; c2=$?; tail -5 /tmp/sv_mut_$name.log | cut -c1-200
rm $wt/$demodir/zz_seed_demo_test.go
echo "--- existing tests with the change (must pass)"
pk="./pkg/wal/ ./pkg/memtable/ ./pkg/sstable/... ./pkg/engine/... ./pkg/transaction/ ./pkg/compaction/ ./pkg/common/... ./pkg/config/ ./pkg/grpc/... ./pkg/bloom_filter/ $@"
go test -count=1 $pk 2>&1 | grep -v "no test files" | grep -v "^ok" | head; t=${PIPESTATUS[0]}
git checkout -q -- .
echo "RESULT clean_demo=$c1 build=$b mutant_demo=$c2 existing_tests=$t"
if [ $c1 = 0 ] && [ $b = 0 ] && [ $c2 != 0 ] && [ $t = 0 ]; then
  mkdir -p /verif/seeded/$id && cp $src/patch.diff /verif/seeded/$id/ && cp $demo /verif/seeded/$id/ && cp $src/notes.md /verif/seeded/$id/ 2>/dev/null
  echo "{\"id\": \"$id\", \"property\": \"$prop\", \"demo_package_dir\": \"$demodir\", \"confirmed\": \"demo passes on the clean tree, fails with the change; go build ./... and the existing tests of wal, memtable, sstable, engine, transaction, compaction, common, config, grpc, bloom_filter pass with the change (dev/seed_verify.sh)\"}" > /verif/seeded/$id/meta.json
  echo "STORED /verif/seeded/$id"
else echo "NOT STORED"; fi
