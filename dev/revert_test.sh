#!/bin/bash
# dev helper: for every "fix:" commit in /repo, reverse-apply it in a scratch worktree (never in /repo), run the check
# that reported the defect against that tree, expect exit 1 + VIOLATION. Usage: dev/revert_test.sh [logfile]
out=${1:-/var/tmp/revert.log}; : > $out
wt=/tmp/wt-revert
cd /repo
[ -d $wt ] || git worktree add -q --detach $wt HEAD
(cd $wt && git checkout -q -- . && git checkout -q --detach $(git -C /repo rev-parse HEAD))
while read hash prop harness; do
  [ -n "$ONLY" ] && [[ "$hash" != $ONLY ]] && continue
  [ -z "$hash" ] && continue
  echo "=== $hash $prop $harness : $(git log --format=%s -1 $hash)" >> $out
  if ! (cd $wt && git -C /repo diff $hash^ $hash | git apply -R 2>>$out); then echo "RESULT $hash cannot-reverse (later commits touch the same lines)" >> $out; (cd $wt && git checkout -q -- .); continue; fi
  (cd /verif && VERIF_REPO=$wt timeout 1500 ./check $prop quick -only $harness) > /var/tmp/revert_one.log 2>&1; code=$?
  grep -E "VIOLATION|INCONCLUSIVE|KNOWN|^  Verif" /var/tmp/revert_one.log | cut -c1-200 | head -6 >> $out
  echo "RESULT $hash exit=$code" >> $out
  (cd $wt && git checkout -q -- .)
done <<'LIST'
c2d939d C08 VerifC08_SeqMonotone
19512dc C01 VerifC01_ValueShapes
a9beeae C11 VerifC11_GetAcrossBlocks
67a9e5e C11 VerifC11_RoundTripSmall
306e0a4 C11 VerifC11_RoundTripSmall
e4b22c6 C11 VerifC11_SeekAcrossBlocks
a31a74f C05 VerifC05_EngineScan
9c77409 C05 VerifC05_BoundedExact
0ab6b81 C03 VerifC03_TxSequential
0f82375 C10 VerifC10_Truncate
e347ae0 C07 VerifC07_TombstoneTracker
e543e93 C20 VerifC20_Validate
61a5e5b C12 VerifC12_CompactPreservesView
fc2028f C17 VerifC17_BeginTimeoutNoLeak
dd8f819 C19 VerifC19_TxHandles
9b31582 C13 VerifC13_ApplyStepInductive
0882720 C06 VerifC06_PutVsFlush
37219a5 C03 VerifC03_FailedCommitNoTrace
3cad002 C18 VerifC18_ReaderVsInsert
1b8c186 C01 VerifC01_ReadLatest
875b89b C10 VerifC10_DamageThenWriteThenRecover
50b019a C01 VerifC01_ReadFromTables
4ea7daa C11 VerifC11_FlipOneByte
ef4c1bc C20 VerifC20_SaveCrashAtomic
afbe218 C20 VerifC20_SaveLoad
776c121 C15 VerifC15_PollVsWriteNoDeadlock
94370e8 C12 VerifC12_CompactPreservesView
9b089c3 C02 VerifC02_CrashDuringMaintenance
11ad072 C12 VerifC12_RangeCompaction
d15e1f5 C12 VerifC12_CompactionInWorkload
6334d95 C07 VerifC07_RegistryPairs
LIST
echo ALLDONE >> $out
(cd /repo && git worktree remove --force $wt)
