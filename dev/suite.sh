#!/bin/bash
# dev helper: run the repository's suite (guard off) and compare with BASELINE stable_pass
out=${1:-/var/tmp/suite.json}
cd /repo && go test -mod=mod -json -vet=off -count=1 -timeout 25m ./... > $out 2>/var/tmp/suite.err
python3 - "$out" <<'PY'
import json,sys
b=json.load(open('/root/.vp/BASELINE.json'))
st={}
for l in open(sys.argv[1]):
    try: e=json.loads(l)
    except: continue
    if e.get('Test') and e.get('Action') in ('pass','fail','skip'):
        st[e['Package']+'::'+e['Test']]=e['Action']
missing=[t for t in b['stable_pass'] if st.get(t)!='pass']
print("stable_pass:",len(b['stable_pass']),"passing now:",len(b['stable_pass'])-len(missing))
for t in missing: print("  NOT PASSING:",t,st.get(t))
PY
