#!/usr/bin/env python3
"""Reads a seedsweep log, updates /verif/seeded/*/meta.json (caught_by / missed) and prints the DESIGN.md §11 table."""
import json, re, sys, os, glob
log = sys.argv[1]
res = {}
cur = None
for l in open(log):
    m = re.match(r'=== (\S+)', l)
    if m: cur = m.group(1); res[cur] = {"exit": None, "by": []}; continue
    if cur is None: continue
    m = re.match(r'RESULT (\S+) exit=(\d+)', l)
    if m: res[cur]["exit"] = int(m.group(2)); continue
    m = re.match(r'CAUGHT-BY:\s+harness=(\S+) kind=(\S+).*?verdict=(.*?)\t\s*(.*)', l)
    if m: res[cur]["by"].append({"harness": m.group(1), "kind": m.group(2), "verdict": m.group(3).strip(), "msg": m.group(4).strip()[:160]})
rows = []
for d in sorted(glob.glob('/verif/seeded/*/')):
    sid = os.path.basename(d.rstrip('/'))
    mp = d + 'meta.json'
    meta = json.load(open(mp))
    r = res.get(sid)
    if r is None: continue
    meta["check_run"] = "final state: ./check %s quick -only <the harness(es) that reported the change when the whole property was run against it> with the change applied in a scratch worktree (dev/seedsweep_fast.sh); earlier: the whole property (dev/seedsweep.sh, dev/seed3.sh)" % sid.split('-')[0]
    if r["exit"] == 1 and r["by"]:
        meta["detected"] = True
        meta["caught_by"] = r["by"]
        meta.pop("missed_because", None)
    else:
        meta["detected"] = False
        meta.setdefault("missed_because", "see DESIGN.md §11")
        meta.pop("caught_by", None)
    json.dump(meta, open(mp, 'w'), indent=1)
    if r["exit"] == 1:
        by = "; ".join(sorted({b["harness"].replace("Verif", "") for b in r["by"]}))
    elif meta.get("caught_by_thorough"):
        by = "quick: missed; thorough: " + meta["caught_by_thorough"]
    else:
        by = "**missed** (" + meta.get("missed_because", "") + ")"
    rows.append("| %s | %s | %s |" % (sid, meta.get("needs_to_manifest", ""), by))
table = "| seeded change | needs, to manifest | detected by (quick tier unless said otherwise) |\n|---|---|---|\n" + "\n".join(rows)
table += "\n\n%d of %d detected by the quick tier" % (sum(1 for s in res.values() if s["exit"] == 1), len(res))
print(table)
dp = '/verif/DESIGN.md'
d = open(dp).read()
b, e = '<!-- SEEDED-TABLE-BEGIN -->', '<!-- SEEDED-TABLE-END -->'
if b in d and e in d:
    d = d[:d.index(b) + len(b)] + "\n" + table + "\n" + d[d.index(e):]
    open(dp, 'w').write(d)
    print("DESIGN.md table replaced")
