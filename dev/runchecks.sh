#!/bin/bash
# dev helper: run every registered quick check, log to $1
cd ${VERIF_DIR:-/verif}; out=${1:-/var/tmp/checks.log}; tier=${2:-quick}; : > $out
for p in ${PROPS:-$(python3 -c "import json;print(' '.join(sorted(json.load(open('/verif/checks.json')))))")}; do
  echo "=== $p" >> $out
  ( time timeout 7200 ./check $p $tier ) >> $out 2>&1
  echo "exit=$?" >> $out
done
echo ALLDONE >> $out
