#!/usr/bin/env python3
"""Regenerates the per-harness table of DESIGN.md §8.3 between the CHECKS-TABLE markers from checks.json."""
import json, re
c = json.load(open('/verif/checks.json'))
out = []
for pid in sorted(c):
    d = c[pid]
    out.append("**%s — %s** (%d harnesses). Outside the claim: %s" % (pid, d["title"], len(d["obligations"]), "; ".join(d["outside"]) or "nothing beyond the stated bounds"))
    out.append("")
    out.append("| harness | what is decided | quick bounds | thorough |")
    out.append("|---|---|---|---|")
    for o in d["obligations"]:
        q, t = o["quick"].get("bounds", ""), o["thorough"].get("bounds", "")
        tier = ""
        if "preempt" in o["quick"]:
            tier = " *(Tier B, preemption %d%s)*" % (o["quick"]["preempt"], ", background flusher as a thread" if o["quick"].get("background") else "")
        out.append("| `%s` (%s)%s | %s | %s | %s |" % (o["fn"].replace("Verif", ""), o["pkg"].replace("pkg/", ""), tier, o["what"], q, "same" if t == q else t))
    out.append("")
txt = "\n".join(out)
p = '/verif/DESIGN.md'
s = open(p).read()
b, e = '<!-- CHECKS-TABLE-BEGIN -->', '<!-- CHECKS-TABLE-END -->'
if b in s:
    s = s[:s.index(b) + len(b)] + "\n" + txt + "\n" + s[s.index(e):]
    open(p, 'w').write(s)
    print("table regenerated:", sum(len(c[k]["obligations"]) for k in c), "harnesses")
else:
    print("markers not found")
