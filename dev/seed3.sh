#!/bin/bash
# dev helper: confirm one wave-3 seeded change and run its property's quick check against it.
# usage: dev/seed3.sh <Cxx> <name> <demo-pkg-dir> [extra test pkgs...]
prop=$1; name=$2; demodir=$3; shift 3
log=/var/tmp/s3_$prop-$name.log
SEEDDIR=SEEDED3 /verif/dev/seed_verify.sh /tmp/wt-$prop $name $prop $demodir "$@" > $log 2>&1
if grep -q "^STORED" $log; then
  # a private sweep worktree per seed so that several can run side by side
  wt=/tmp/wt-s3-$prop-$name
  git -C /repo worktree add -q --detach $wt HEAD
  (cd $wt && git apply /verif/seeded/$prop-$name/patch.diff)
  (cd /verif && VERIF_REPO=$wt timeout 3000 ./check $prop quick) > $log.check 2>&1; code=$?
  grep -E "^VIOLATION|^INCONCLUSIVE|^KNOWN" $log.check | cut -c1-220 | head -6 >> $log
  grep -A2 "^VIOLATION" $log.check | grep -v "^VIOLATION\|^--" | paste - - | sed 's/^/CAUGHT-BY: /' | cut -c1-330 >> $log
  echo "SWEEP $prop-$name exit=$code" >> $log
  git -C /repo worktree remove --force $wt
fi
tail -4 $log | cut -c1-330
