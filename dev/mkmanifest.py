#!/usr/bin/env python3
"""Generates /verif/MANIFEST.json from checks.json + the texts below."""
import json
props=[json.loads(l) for l in open('/verif/properties.jsonl')]
checks=json.load(open('/verif/checks.json'))
NA = {
}
TEXT = {}
def lvl(pid):
    c=checks[pid]
    hs=", ".join(o["fn"] for o in c["obligations"])
    return ("Bounded symbolic model checking of kevo's own code: the harnesses ("+hs+") are executed over go/ssa built from /repo's working tree on every run; "
            "inputs, operation programs, crash points / schedules are symbolic or forked, every branch and assertion is decided by z3, a pass means "
            "'holds for every value within the bounds stated per harness in the evidence', a counterexample is replayed against the natively compiled code before it is reported. "
            "One worker's complete solver session per harness is re-decided by z3 5.1 (and cvc5 in the thorough tier) and the verdicts compared. Nothing is claimed outside the bounds. "+TEXT.get(pid,""))
m={"version":1,
 "setup_cmd":"cd engine && GOFLAGS=-mod=mod GOPROXY=off go build -o ../bin/gosym .",
 "hooks":{"guard":"verif","enable":"no hook is committed to /repo: harness files (//go:build verif) live in /verif/harness and are injected with go/packages Overlay (symbolic run) and go test -overlay -tags verif (native replay)","baseline_off_cmd":json.load(open('/root/.vp/BASELINE.json'))['cmd'],"source_commits":[],"add_only":True},
 "engines":[{"name":"gosym","path":"engine","serves_properties":sorted(checks),"kind_free_text":"own symbolic interpreter over go/ssa (x/tools v0.50.0): bit-vector terms, replay-based path forking, one z3 -in per worker, in-engine file-system/clock/scheduler models, vector-clock race detector, native replay of counterexamples via go test -overlay"}],
 "checks":[], "not_applicable":[],
 "notes":"./check <id> quick|thorough; ./check replay <file>. INCONCLUSIVE lines (engine limitation, unwinding bound exceeded, solver unknown, counterexample not reproduced natively) are never reported as success or as violation: they are printed, recorded in the evidence and leave the exit status at 0 unless VERIF_STRICT=1. KNOWN_FINDINGS.jsonl lists recorded findings (none suppress anything unless the counterexample lies in the named region of the named harness) and 'fixed' entries for the fix: commits in /repo."}
for p in props:
    pid=p['id']
    if pid in checks:
        c=checks[pid]
        tierb=any(("preempt" in o["quick"]) for o in c["obligations"])
        m['checks'].append({"property_id":pid,"quick_cmd":f"./check {pid} quick","thorough_cmd":f"./check {pid} thorough","evidence_file":f"evidence/{pid}.json","replay_cmd_template":"./check replay {path}","engine":"gosym",
          "level_claimed":{"category":"model_checking","text":lvl(pid),"design_ref":"DESIGN.md §3 "+pid},
          "level_note":"Trusted: go/ssa construction, the gosym interpreter (differentially validated against native runs on sampled paths each run), z3, and the environment stubs listed in the evidence: "+"; ".join(c["assumptions"])[:1500]+(". Outside the claim: "+"; ".join(c["outside"]) if c["outside"] else ""),
          "technique":"bounded symbolic execution of go/ssa + SMT (z3 bit-vectors)"+(" + bounded schedule enumeration with vector-clock race detection" if tierb else "")})
    else:
        m['not_applicable'].append({"property_id":pid,"reason":NA.get(pid,"no check registered yet; harnesses under construction (DESIGN.md §7)")})
json.dump(m,open('/verif/MANIFEST.json','w'),indent=1)
print("claimed",len(m['checks']),"n/a",len(m['not_applicable']))
