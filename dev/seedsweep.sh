#!/bin/bash
# dev helper: run the quick check of each seeded change's property against the change applied in a scratch worktree
# usage: dev/seedsweep.sh [logfile] [tier] ; uses worktree /tmp/wt-sweep-<n>
out=${1:-/var/tmp/seedsweep.log}; tier=${2:-quick}; : > $out
cd /repo
i=0
for d in /verif/seeded/*/; do
  id=$(basename $d); prop=${id%%-*}
  [ -n "$ONLY" ] && [[ "$id" != $ONLY ]] && continue
  wt=/tmp/wt-sweep-$prop
  [ -d $wt ] || git worktree add -q --detach $wt HEAD
  (cd $wt && git checkout -q --detach $(git -C /repo rev-parse HEAD) && git checkout -q -- . )
  if ! (cd $wt && git apply $d/patch.diff 2>/dev/null); then echo "=== $id PATCH-DOES-NOT-APPLY" >> $out; continue; fi
  echo "=== $id" >> $out
  (cd /verif && VERIF_REPO=$wt timeout 3000 ./check $prop $tier) > /var/tmp/seedsweep_one_$$.log 2>&1; code=$?
  grep -E "VIOLATION|INCONCLUSIVE|KNOWN" /var/tmp/seedsweep_one_$$.log | cut -c1-200 | head -6 >> $out
  grep -A2 "^VIOLATION" /var/tmp/seedsweep_one_$$.log | grep -v "^VIOLATION\|^--" | paste - - | sed 's/^/CAUGHT-BY: /' | cut -c1-330 >> $out
  echo "RESULT $id exit=$code" >> $out
  (cd $wt && git checkout -q -- .)
done
echo ALLDONE >> $out
