#!/bin/bash
# dev helper: like seedsweep.sh, but runs only the harness(es) named for each seed in a JSON map (seed id -> [harness]):
# usage: dev/seedsweep_fast.sh <map.json> <logfile> <stream-index> <streams>
map=$1; out=$2; idx=${3:-0}; n=${4:-1}; : > $out
cd /repo
i=0
for d in /verif/seeded/*/; do
  id=$(basename $d); prop=${id%%-*}
  i=$((i+1)); [ $((i % n)) -ne $idx ] && continue
  wt=/tmp/wt-fast-$idx
  [ -d $wt ] || git worktree add -q --detach $wt HEAD
  (cd $wt && git checkout -q -- . && git checkout -q --detach $(git -C /repo rev-parse HEAD))
  if ! (cd $wt && git apply $d/patch.diff 2>/dev/null); then echo "=== $id PATCH-DOES-NOT-APPLY" >> $out; continue; fi
  echo "=== $id" >> $out
  code=0
  for h in $(python3 -c "import json,sys;print(' '.join(json.load(open('$map'))['$id']))"); do
    (cd /verif && VERIF_DIR_EVIDENCE_SKIP=1 VERIF_REPO=$wt timeout 3000 ./check $prop quick -only $h) > /var/tmp/fast_one_$idx.log 2>&1; c=$?
    [ $c -ne 0 ] && code=$c
    grep -E "^VIOLATION|^INCONCLUSIVE" /var/tmp/fast_one_$idx.log | cut -c1-200 | head -4 >> $out
    grep -A2 "^VIOLATION" /var/tmp/fast_one_$idx.log | grep -v "^VIOLATION\|^--" | paste - - | sed 's/^/CAUGHT-BY: /' | cut -c1-330 >> $out
    [ $c -eq 1 ] && break
  done
  echo "RESULT $id exit=$code" >> $out
  (cd $wt && git checkout -q -- .)
done
echo ALLDONE >> $out
(cd /repo && git worktree remove --force /tmp/wt-fast-$idx)
