; CRC-32 (IEEE 802.3, reflected, polynomial 0xEDB88320) as Go's hash/crc32 computes it:
;   state' = table[(state xor byte) and 0xff] xor (state >> 8),  table[i] = 8 rounds of the bitwise reduction of i.
; L1: for a fixed input byte the step is injective in the state.
; L2: for a fixed state the step is injective in the input byte.
; Consequence (induction over the stream, on paper, three lines): two streams of equal length that differ in
; exactly one byte have different final states - equal states before that byte, different states after it (L2),
; and different states stay different under equal bytes (L1); the final complement is a bijection.
; Both lemmas are checked by negation: each (check-sat) must answer unsat.
(define-fun rnd ((x (_ BitVec 32))) (_ BitVec 32)
  (ite (= ((_ extract 0 0) x) #b1) (bvxor (bvlshr x #x00000001) #xEDB88320) (bvlshr x #x00000001)))
(define-fun tab ((i (_ BitVec 32))) (_ BitVec 32)
  (rnd (rnd (rnd (rnd (rnd (rnd (rnd (rnd i)))))))))
(define-fun step ((c (_ BitVec 32)) (b (_ BitVec 8))) (_ BitVec 32)
  (bvxor (tab (bvand (bvxor c ((_ zero_extend 24) b)) #x000000ff)) (bvlshr c #x00000008)))
(declare-const c1 (_ BitVec 32))
(declare-const c2 (_ BitVec 32))
(declare-const b1 (_ BitVec 8))
(declare-const b2 (_ BitVec 8))
(push 1)
(assert (and (= (step c1 b1) (step c2 b1)) (not (= c1 c2))))
(check-sat)
(pop 1)
(push 1)
(assert (and (= (step c1 b1) (step c1 b2)) (not (= b1 b2))))
(check-sat)
(pop 1)
